import PV.Proofs.CoreComp
import PV.Model.Flatten
import PV.Props.C01
/-!
# C01 (core) — the model code generator is correct on the IC10 machine

For every program `p` of the three-address core language (ALU operations, device reads and writes, yield / sleep,
`if`/`else`, `while` on a comparison, `while True`, `break`, `continue`) whose branches use a negating suffix (`NegOk`, discharged for the real
suffix tables by `PV.Props.C01.branch_neg_correct`), every environment (= every behaviour of the attached devices), every
initial register file and every fuel:

* `compile_correct_done` — if the reference semantics finishes in state `σ'`, the chip running `comp p` reaches the line after
  the program with exactly the registers and the effect trace of `σ'`, then stops, and the trace never changes again;
* `compile_correct_running` — if the reference semantics is still running after `n` loop iterations with trace `τ`, then after
  some `k ≥ n` steps the chip is in a state with exactly the trace `τ`: every finite prefix of the source behaviour is a
  behaviour prefix of the chip, for endless programs too (the machine is deterministic, which gives the converse inclusion).

The model generator is tied to the real transpiler by `harness/c01.py` (stream `incore`): for generated core programs the
captured pre-allocation code of the REAL transpiler must be instruction for instruction `comp (flatten src)`.
-/
namespace PV.Props.C01Core
open PV.IC10 PV.Core

variable {V : Type}

theorem codeAt_self (c : List (Instr Reg V)) : CodeAt c 0 c := by
  intro i _; simp

/-- **terminating programs**: same registers, same effects, then the chip stops for good -/
theorem compile_correct_done (sem : Sem V) (env : Env V) (lit : Nat → V) (hlit : ∀ n, sem.toAddr (lit n) = some n)
    (p : Stmt V) (hneg : NegOk sem p) (mem : Nat → V) (fuel : Nat) (σ σ' : SSt V)
    (h : exec sem env fuel p σ = .done σ') :
    ∃ k, run sem env (comp lit p 0 0 0) k (mk σ mem 0) = mk σ' mem (size p) ∧
      ∀ j, (run sem env (comp lit p 0 0 0) (k + (j + 1)) (mk σ mem 0)).trace = σ'.trace ∧
           (run sem env (comp lit p 0 0 0) (k + (j + 1)) (mk σ mem 0)).halted = true := by
  obtain ⟨k, hk⟩ := (sim sem env lit hlit (comp lit p 0 0 0) mem fuel p hneg 0 0 0 σ (codeAt_self _)).1 .norm σ' h
  simp only [Nat.zero_add, land] at hk
  refine ⟨k, hk, ?_⟩
  intro j
  rw [run_add, hk]
  have hend : (comp lit p 0 0 0)[(mk σ' mem (size p)).pc]? = none := by
    apply List.getElem?_eq_none_iff.mpr
    simp [mk, comp_length]
  have hstep : step sem env (comp lit p 0 0 0) (mk σ' mem (size p)) = { mk σ' mem (size p) with halted := true } := by
    simp only [step]
    have : (mk σ' mem (size p)).halted = false := rfl
    simp only [this, Bool.false_eq_true, if_false, hend]
  have hhalt : ∀ m (s : St Reg V), s.halted = true → run sem env (comp lit p 0 0 0) m s = s := by
    intro m
    induction m with
    | zero => intro s _; rfl
    | succ m ih =>
      intro s hs
      show run sem env (comp lit p 0 0 0) m (step sem env (comp lit p 0 0 0) s) = s
      have : step sem env (comp lit p 0 0 0) s = s := by simp [step, hs]
      rw [this]; exact ih s hs
  have e : run sem env (comp lit p 0 0 0) (j + 1) (mk σ' mem (size p)) =
      run sem env (comp lit p 0 0 0) j (step sem env (comp lit p 0 0 0) (mk σ' mem (size p))) := rfl
  rw [e, hstep, hhalt j _ rfl]
  exact ⟨rfl, rfl⟩

/-- **programs that keep running**: every trace the source reaches is reached by the chip -/
theorem compile_correct_running (sem : Sem V) (env : Env V) (lit : Nat → V) (hlit : ∀ n, sem.toAddr (lit n) = some n)
    (p : Stmt V) (hneg : NegOk sem p) (mem : Nat → V) (fuel : Nat) (σ σ' : SSt V)
    (h : exec sem env fuel p σ = .timeout σ') :
    ∃ k, fuel ≤ k ∧ (run sem env (comp lit p 0 0 0) k (mk σ mem 0)).trace = σ'.trace ∧
      (run sem env (comp lit p 0 0 0) k (mk σ mem 0)).regs = σ'.regs ∧ (run sem env (comp lit p 0 0 0) k (mk σ mem 0)).halted = false := by
  obtain ⟨k, pc, hle, hk⟩ := (sim sem env lit hlit (comp lit p 0 0 0) mem fuel p hneg 0 0 0 σ (codeAt_self _)).2 σ' h
  exact ⟨k, hle, by rw [hk]; rfl, by rw [hk]; rfl, by rw [hk]; rfl⟩

/-! ### the hypothesis `NegOk` for what the real tables produce -/

theorem pairsOk_sound (sem : Sem V) (pairs : List (String × String × Nat))
    (hp : ∀ p ∈ pairs, ∀ vals : List V, vals.length = p.2.2 → sem.cond p.2.1 vals = !sem.cond p.1 vals) :
    ∀ s : Stmt V, pairsOk pairs s = true → NegOk sem s := by
  intro s
  induction s with
  | seq p q ihp ihq =>
    intro h; simp only [pairsOk, Bool.and_eq_true] at h; exact ⟨ihp h.1, ihq h.2⟩
  | ite c neg args p q ihp ihq =>
    intro h; simp only [pairsOk, Bool.and_eq_true, List.contains_iff_mem] at h
    exact ⟨hp (c, neg, args.length) h.1.1, ihp h.1.2, ihq h.2⟩
  | ifThen c neg args p ihp =>
    intro h; simp only [pairsOk, Bool.and_eq_true, List.contains_iff_mem] at h
    exact ⟨hp (c, neg, args.length) h.1, ihp h.2⟩
  | «while» c neg args body ih =>
    intro h; simp only [pairsOk, Bool.and_eq_true, List.contains_iff_mem] at h
    exact ⟨hp (c, neg, args.length) h.1, ih h.2⟩
  | loop body ih => intro h; exact ih h
  | _ => intro _; trivial

/-- a value semantics on a linear order whose conditions mean what `PV.Props.C01.icCond` says (two operands), and whose
    one-operand conditions compare with zero -/
def LinCond (sem : Sem Int) : Prop :=
  (∀ c a b, sem.cond c [a, b] = (PV.Props.C01.icCond c a b).getD false) ∧
  (∀ a, sem.cond "eqz" [a] = decide (a = 0)) ∧ (∀ a, sem.cond "nez" [a] = decide (a ≠ 0))

/-- **the suffix pairs the regenerated tables yield negate each other** (plain and under `not`; `if x` / `if not x`) -/
theorem real_pairs_negate (sem : Sem Int) (h : LinCond sem) :
    ∀ p ∈ PV.Flatten.branchPairs, ∀ vals : List Int, vals.length = p.2.2 → sem.cond p.2.1 vals = !sem.cond p.1 vals := by
  have e : PV.Flatten.branchPairs = [("eq", "ne", 2), ("ne", "eq", 2), ("lt", "ge", 2), ("le", "gt", 2), ("gt", "le", 2), ("ge", "lt", 2),
      ("ne", "eq", 2), ("eq", "ne", 2), ("ge", "lt", 2), ("gt", "le", 2), ("le", "gt", 2), ("lt", "ge", 2), ("nez", "eqz", 1), ("eqz", "nez", 1)] := by decide
  rw [e]
  obtain ⟨h2, hz, hnz⟩ := h
  intro p hp vals hlen
  simp only [List.mem_cons, List.mem_nil_iff, or_false] at hp
  rcases hp with rfl | rfl | rfl | rfl | rfl | rfl | rfl | rfl | rfl | rfl | rfl | rfl | rfl | rfl
  all_goals first
    | (match vals, hlen with
       | [x, y], _ => simp only [h2, PV.Props.C01.icCond, Option.getD_some]; rw [Bool.eq_iff_iff]; simp; try omega)
    | (match vals, hlen with
       | [x], _ => simp only [hz, hnz]; rw [Bool.eq_iff_iff]; simp)

/-- the two together: a core program whose branches come from the real tables satisfies the hypothesis of the theorems -/
theorem negOk_of_real_tables (sem : Sem Int) (h : LinCond sem) (p : Stmt Int) (hp : pairsOk PV.Flatten.branchPairs p = true) :
    NegOk sem p :=
  pairsOk_sound sem _ (real_pairs_negate sem h) p hp

/-! non-vacuity: a counting loop with a device write, on integers -/
def intSem : Sem Int :=
  { alu := fun _ vs => match vs with | [a, b] => a + b | _ => 0,
    cond := fun c vs =>
      let lt := match vs with | [a, b] => decide (a < b) | _ => false
      if c == "lt" then lt else !lt,
    toAddr := fun v => if v < 0 then none else some v.toNat, ofNat := fun n => (n : Int), truthy := fun v => v != 0 }

def demo : Stmt Int :=
  .seq (.alu 0 "add" [.num 0, .num 0])
    (.while "lt" "ge" [.reg 0, .num 3] (.seq (.alu 0 "add" [.reg 0, .num 1]) (.store "s" [.num (-7), .num 12, .reg 0])))

example : NegOk intSem demo := by
  refine ⟨trivial, ?_, trivial, trivial⟩
  intro vals hv
  match vals, hv with
  | [x, y], _ => simp [intSem]

/-- line numbers are representable in this value domain (the hypothesis `hlit` of the theorems) -/
example : ∀ n : Nat, intSem.toAddr ((fun k => (k : Int)) n) = some n := by
  intro n; simp [intSem]

end PV.Props.C01Core
