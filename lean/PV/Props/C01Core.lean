import PV.Proofs.CoreComp
import PV.Model.Flatten
import PV.Props.C01
/-!
# C01 (core) — the model code generator is correct on the IC10 machine

For every program `p` of the three-address core language (ALU operations, device reads and writes, yield / sleep,
`if`/`else`, `while` on a comparison, `while True`, `break`, `continue`, reads and writes of the own stack, and calls of leaf
procedures — parameters and results travel through stack cells —) whose branches use a negating suffix (`NegOk`, discharged for the real
suffix tables by `PV.Props.C01.branch_neg_correct`), every environment (= every behaviour of the attached devices), every
initial register file and every fuel:

* `compile_correct_done` — if the reference semantics finishes in state `σ'`, the chip running `comp p` reaches the line after
  the program with exactly the registers and the effect trace of `σ'`, then stops, and the trace never changes again;
* `compile_correct_running` — if the reference semantics is still running after `n` loop iterations with trace `τ`, then after
  some `k ≥ n` steps the chip is in a state with exactly the trace `τ`: every finite prefix of the source behaviour is a
  behaviour prefix of the chip, for endless programs too (the machine is deterministic, which gives the converse inclusion).

The model generator is tied to the real transpiler by `harness/c01.py` (stream `incore`): for generated core programs the
captured pre-allocation code of the REAL transpiler must be instruction for instruction `comp (flatten src)`.
-/
namespace PV.Props.C01Core
open PV.IC10 PV.Core

variable {V : Type}

theorem codeAt_self (c : List (Instr Reg V)) : CodeAt c 0 c := by
  intro i _; simp

/-! ### program layout: main code, then one block per procedure -/

theorem compProc_length (lit : Nat → V) (entry : Nat → Nat) (b : Stmt V) (k : Nat) : (compProc lit entry b k).length = blockSize b := by
  unfold compProc blockSize
  split <;> simp [comp_length, nopI, pushRa, popRa, retI] <;> omega

theorem codeAt_flatten (pre : List (Instr Reg V)) : ∀ (Ls : List (List (Instr Reg V))) (k : Nat) (c : List (Instr Reg V)), Ls[k]? = some c →
    CodeAt (pre ++ Ls.flatten) (pre.length + ((Ls.take k).map List.length).sum) c := by
  intro Ls
  induction Ls generalizing pre with
  | nil => intro k c h; simp at h
  | cons L rest ih =>
    intro k c h
    cases k with
    | zero =>
      simp only [List.getElem?_cons_zero, Option.some.injEq] at h
      subst h
      intro i hi
      simp only [List.take_zero, List.map_nil, List.sum_nil, Nat.add_zero, List.flatten_cons]
      rw [List.getElem?_append_right (by omega)]
      simp [List.getElem?_append_left hi]
    | succ k =>
      simp only [List.getElem?_cons_succ] at h
      have := ih (pre ++ L) k c h
      simp only [List.flatten_cons, List.take_succ_cons, List.map_cons, List.sum_cons]
      rw [List.append_assoc] at this
      have e : (pre ++ L).length + ((rest.take k).map List.length).sum = pre.length + (L.length + ((rest.take k).map List.length).sum) := by
        simp [Nat.add_assoc]
      rw [e] at this
      exact this

theorem blocks_get (lit : Nat → V) (entry : Nat → Nat) (procs : List (Stmt V)) (k : Nat) (hk : k < procs.length) :
    (blocks lit entry procs)[k]? = some (compProc lit entry (procOf procs k) k) := by
  simp [blocks, procOf, List.getElem?_map, List.getElem?_zipIdx, hk, List.getD_eq_getElem?_getD]

theorem blocks_lengths (lit : Nat → V) (entry : Nat → Nat) (procs : List (Stmt V)) (k : Nat) :
    (((blocks lit entry procs).take k).map List.length).sum = ((procs.take k).map blockSize).sum := by
  have : (blocks lit entry procs).map List.length = procs.map blockSize := by
    simp only [blocks, List.map_map]
    apply List.ext_getElem?
    intro i
    simp only [List.getElem?_map, List.getElem?_zipIdx]
    cases procs[i]? <;> simp [compProc_length]
  rw [List.map_take, this, ← List.map_take]

/-- every procedure of the program sits at its entry line -/
theorem compProg_proc (lit : Nat → V) (main : Stmt V) (procs : List (Stmt V)) (k : Nat) (hk : k < procs.length) :
    CodeAt (compProg lit main procs) (entryOf (size main) procs k)
      (compProc lit (entryOf (size main) procs) (procOf procs k) k) := by
  have h := codeAt_flatten (comp lit (entryOf (size main) procs) main 0 0 0 0) (blocks lit (entryOf (size main) procs) procs) k _
    (blocks_get lit _ procs k hk)
  rw [comp_length, blocks_lengths] at h
  exact h

theorem compProg_main (lit : Nat → V) (main : Stmt V) (procs : List (Stmt V)) :
    CodeAt (compProg lit main procs) 0 (comp lit (entryOf (size main) procs) main 0 0 0 0) := by
  intro i hi
  simp [compProg, List.getElem?_append_left hi]

/-- **programs that keep running** (the normal case on the chip: `while True:` at the end), with procedures that may call
    procedures of smaller rank: every effect trace the source reaches is reached by the chip, with the same program memory
    (the stack cells from `lo` on) and the same registers except `ra` / `sp` -/
theorem compile_correct_running (sem : Sem V) (lo : Nat) (env : Env V) (lit : Nat → V) (hlit : ∀ n, sem.toAddr (lit n) = some n)
    (hof : ∀ n, sem.toAddr (sem.ofNat n) = some n) (hlo : lo ≤ stackSize) (main : Stmt V) (procs : List (Stmt V)) (rk : Nat → Nat) (b : Nat)
    (hb : b ≤ lo) (hrk : ∀ k, k < procs.length → rk k < b)
    (hmain : Good sem lo (fun k => k < procs.length) main)
    (hprocs : ∀ k, k < procs.length → Good sem lo (fun j => j < procs.length ∧ rk j < rk k) (procOf procs k))
    (fuel : Nat) (σ σ' : SSt V) (hsp : σ.regs Special.sp = sem.ofNat 0) (h : exec sem env (procOf procs) fuel main σ = .timeout σ') :
    ∃ k, fuel ≤ k ∧ (run sem env (compProg lit main procs) k (mk σ 0)).trace = σ'.trace ∧
      (∀ n, lo ≤ n → (run sem env (compProg lit main procs) k (mk σ 0)).mem n = σ'.mem n) ∧
      (∀ r, r ≠ (Special.ra : Reg) → r ≠ (Special.sp : Reg) → (run sem env (compProg lit main procs) k (mk σ 0)).regs r = σ'.regs r) ∧
      (run sem env (compProg lit main procs) k (mk σ 0)).halted = false := by
  have hok : ∀ k, k < procs.length → ProcOk sem lo lit (entryOf (size main) procs) (procOf procs) (compProg lit main procs) rk (fun k => k < procs.length) k :=
    fun k hk => ⟨compProg_proc lit main procs k hk, hprocs k hk⟩
  obtain ⟨k, pc, d', stk', hle, hk⟩ := (sim sem lo env lit _ (procOf procs) (compProg lit main procs) rk _ hlit hof hlo hok fuel main
    (fun k => k < procs.length) b (fun k hk => ⟨hk, hrk k hk⟩) hmain 0 0 0 0 σ (mk σ 0) 0 [] (by omega)
    (compProg_main lit main procs) (at_mk sem lo σ 0 hsp)).2 σ' h
  exact ⟨k, hle, hk.trace, hk.mem, hk.regs, hk.halted⟩

/-- **terminating programs** (no procedure emitted after the main code): the chip reaches the line after the program with the
    source's final registers (except `ra` / `sp`), program memory and effects, then stops, and the trace never changes again -/
theorem compile_correct_done (sem : Sem V) (lo : Nat) (env : Env V) (lit : Nat → V) (hlit : ∀ n, sem.toAddr (lit n) = some n)
    (hof : ∀ n, sem.toAddr (sem.ofNat n) = some n) (hlo : lo ≤ stackSize) (p : Stmt V) (hgood : Good sem lo (fun _ => False) p)
    (fuel : Nat) (σ σ' : SSt V) (hsp : σ.regs Special.sp = sem.ofNat 0) (h : exec sem env (fun _ => .skip) fuel p σ = .done σ') :
    ∃ k, At sem lo (run sem env (comp lit (fun _ => 0) p 0 0 0 0) k (mk σ 0)) σ' (size p) 0 [] ∧
      ∀ j, (run sem env (comp lit (fun _ => 0) p 0 0 0 0) (k + (j + 1)) (mk σ 0)).trace = σ'.trace ∧
           (run sem env (comp lit (fun _ => 0) p 0 0 0 0) (k + (j + 1)) (mk σ 0)).halted = true := by
  have hok : ∀ k, (fun _ : Nat => False) k → ProcOk sem lo lit (fun _ => 0) (fun _ => Stmt.skip) (comp lit (fun _ => 0) p 0 0 0 0) (fun _ => 0) (fun _ => False) k :=
    fun k hk => hk.elim
  obtain ⟨k, hk, _⟩ := (sim sem lo env lit (fun _ => 0) (fun _ => .skip) (comp lit (fun _ => 0) p 0 0 0 0) (fun _ => 0) (fun _ => False) hlit hof hlo hok fuel p
    (fun _ => False) 0 (fun k hk => hk.elim) hgood 0 0 0 0 σ (mk σ 0) 0 [] (by omega) (codeAt_self _) (at_mk sem lo σ 0 hsp)).1 .norm σ' h
  simp only [Nat.zero_add, land] at hk
  refine ⟨k, hk, ?_⟩
  intro j
  rw [run_add]
  generalize run sem env (comp lit (fun _ => 0) p 0 0 0 0) k (mk σ 0) = st at hk
  have hend : (comp lit (fun _ => 0) p 0 0 0 0)[st.pc]? = none := by
    apply List.getElem?_eq_none_iff.mpr
    simp [hk.pc, comp_length]
  have hstep : step sem env (comp lit (fun _ => 0) p 0 0 0 0) st = { st with halted := true } := by
    simp only [step, hk.halted, Bool.false_eq_true, if_false, hend]
  have hhalt : ∀ m (s : St Reg V), s.halted = true → run sem env (comp lit (fun _ => 0) p 0 0 0 0) m s = s := by
    intro m
    induction m with
    | zero => intro s _; rfl
    | succ m ih =>
      intro s hs
      show run sem env (comp lit (fun _ => 0) p 0 0 0 0) m (step sem env (comp lit (fun _ => 0) p 0 0 0 0) s) = s
      have : step sem env (comp lit (fun _ => 0) p 0 0 0 0) s = s := by simp [step, hs]
      rw [this]; exact ih s hs
  have e : run sem env (comp lit (fun _ => 0) p 0 0 0 0) (j + 1) st =
      run sem env (comp lit (fun _ => 0) p 0 0 0 0) j (step sem env (comp lit (fun _ => 0) p 0 0 0 0) st) := rfl
  rw [e, hstep, hhalt j _ rfl]
  exact ⟨hk.trace, rfl⟩

/-! ### the hypothesis `Good` for what the real tables produce -/

theorem opndOkB_sound (o : Opnd Reg V) (h : opndOkB o = true) : opndOk o := by
  cases o with
  | reg r => simpa [opndOkB, opndOk] using h
  | num v => trivial

theorem regOkB_sound (x : Reg) (h : regOkB x = true) : regOk x := by
  simpa [regOkB, regOk] using h

theorem addrOkB_sound (sem : Sem V) (lo : Nat) (o : Opnd Reg V) (h : addrOkB sem lo o = true) : addrOk sem lo o := by
  cases o with
  | reg r => simp [addrOkB] at h
  | num v =>
    simp only [addrOkB] at h
    cases ht : sem.toAddr v with
    | none => rw [ht] at h; cases h
    | some n =>
      rw [ht] at h
      simp only [Bool.and_eq_true, decide_eq_true_eq] at h
      exact ⟨n, ht, h.1, h.2⟩

theorem argsOk_sound (args : List (Opnd Reg V)) (h : args.all opndOkB = true) : ∀ o ∈ args, opndOk o := by
  intro o ho
  rw [List.all_eq_true] at h
  exact opndOkB_sound o (h o ho)

theorem goodB_sound (sem : Sem V) (lo : Nat) (pairs : List (String × String × Nat)) (procs : List Nat) (ok : Nat → Prop)
    (hp : ∀ p ∈ pairs, ∀ vals : List V, vals.length = p.2.2 → sem.cond p.2.1 vals = !sem.cond p.1 vals)
    (hprocs : ∀ k ∈ procs, ok k) :
    ∀ s : Stmt V, goodB sem lo pairs procs s = true → Good sem lo ok s := by
  intro s
  induction s with
  | alu x op args => intro h; simp only [goodB, Bool.and_eq_true] at h; exact ⟨regOkB_sound x h.1, argsOk_sound args h.2⟩
  | load x q args => intro h; simp only [goodB, Bool.and_eq_true] at h; exact ⟨regOkB_sound x h.1, argsOk_sound args h.2⟩
  | store q args => intro h; exact argsOk_sound args h
  | sleep a => intro h; exact opndOkB_sound a h
  | getm x a => intro h; simp only [goodB, Bool.and_eq_true] at h; exact ⟨regOkB_sound x h.1, addrOkB_sound sem lo a h.2⟩
  | putm a v => intro h; simp only [goodB, Bool.and_eq_true] at h; exact ⟨addrOkB_sound sem lo a h.1, opndOkB_sound v h.2⟩
  | call k => intro h; simp only [goodB, List.contains_iff_mem] at h; exact hprocs k h
  | seq p q ihp ihq =>
    intro h; simp only [goodB, Bool.and_eq_true] at h; exact ⟨ihp h.1, ihq h.2⟩
  | ite c neg args p q ihp ihq =>
    intro h; simp only [goodB, Bool.and_eq_true, List.contains_iff_mem] at h
    exact ⟨hp (c, neg, args.length) h.1.1.1, argsOk_sound args h.1.1.2, ihp h.1.2, ihq h.2⟩
  | ifThen c neg args p ihp =>
    intro h; simp only [goodB, Bool.and_eq_true, List.contains_iff_mem] at h
    exact ⟨hp (c, neg, args.length) h.1.1, argsOk_sound args h.1.2, ihp h.2⟩
  | «while» c neg args body ih =>
    intro h; simp only [goodB, Bool.and_eq_true, List.contains_iff_mem] at h
    exact ⟨hp (c, neg, args.length) h.1.1, argsOk_sound args h.1.2, ih h.2⟩
  | loop body ih => intro h; exact ih h
  | inl body ih => intro h; exact ih h
  | _ => intro _; trivial

/-- a value semantics on a linear order whose conditions mean what `PV.Props.C01.icCond` says (two operands), and whose
    one-operand conditions compare with zero -/
def LinCond (sem : Sem Int) : Prop :=
  (∀ c a b, sem.cond c [a, b] = (PV.Props.C01.icCond c a b).getD false) ∧
  (∀ a, sem.cond "eqz" [a] = decide (a = 0)) ∧ (∀ a, sem.cond "nez" [a] = decide (a ≠ 0))

/-- **the suffix pairs the regenerated tables yield negate each other** (plain and under `not`; `if x` / `if not x`) -/
theorem real_pairs_negate (sem : Sem Int) (h : LinCond sem) :
    ∀ p ∈ PV.Flatten.branchPairs, ∀ vals : List Int, vals.length = p.2.2 → sem.cond p.2.1 vals = !sem.cond p.1 vals := by
  -- whatever the order of the rows in the source: every pair the tables yield is one of these eight
  have e : ∀ p ∈ PV.Flatten.branchPairs, p ∈ [("eq", "ne", 2), ("ne", "eq", 2), ("lt", "ge", 2), ("le", "gt", 2), ("gt", "le", 2), ("ge", "lt", 2),
      ("nez", "eqz", 1), ("eqz", "nez", 1)] := by decide
  obtain ⟨h2, hz, hnz⟩ := h
  intro p hp vals hlen
  have hp := e p hp
  simp only [List.mem_cons, List.mem_nil_iff, or_false] at hp
  rcases hp with rfl | rfl | rfl | rfl | rfl | rfl | rfl | rfl
  all_goals first
    | (match vals, hlen with
       | [x, y], _ => simp only [h2, PV.Props.C01.icCond, Option.getD_some]; rw [Bool.eq_iff_iff]; simp; try omega)
    | (match vals, hlen with
       | [x], _ => simp only [hz, hnz]; rw [Bool.eq_iff_iff]; simp)

/-- the two together: a core program that passes the executable check `goodB` against the real tables satisfies the hypothesis
    of the theorems (`procs`: the procedures it may call) -/
theorem good_of_real_tables (sem : Sem Int) (lo : Nat) (h : LinCond sem) (procs : List Nat) (ok : Nat → Prop) (hprocs : ∀ k ∈ procs, ok k)
    (p : Stmt Int) (hp : goodB sem lo PV.Flatten.branchPairs procs p = true) : Good sem lo ok p :=
  goodB_sound sem lo _ procs ok (real_pairs_negate sem h) hprocs p hp

/-! non-vacuity: a counting loop with a device write, on integers -/
def intSem : Sem Int :=
  { alu := fun _ vs => match vs with | [a, b] => a + b | _ => 0,
    cond := fun c vs =>
      let lt := match vs with | [a, b] => decide (a < b) | _ => false
      if c == "lt" then lt else !lt,
    toAddr := fun v => if v < 0 then none else some v.toNat, ofNat := fun n => (n : Int), truthy := fun v => v != 0 }

def demo : Stmt Int :=
  .seq (.alu 0 "add" [.num 0, .num 0])
    (.while "lt" "ge" [.reg 0, .num 3] (.seq (.alu 0 "add" [.reg 0, .num 1]) (.store "s" [.num (-7), .num 12, .reg 0])))

example : Good intSem 64 (fun _ => False) demo := by
  refine goodB_sound intSem 64 [("lt", "ge", 2)] [] _ ?_ (by simp) demo (by decide)
  intro p hp vals hv
  simp only [List.mem_singleton] at hp
  subst hp
  match vals, hv with
  | [x, y], _ => simp [intSem]

/-- line numbers are representable in this value domain (the hypothesis `hlit` of the theorems) -/
example : ∀ n : Nat, intSem.toAddr ((fun k => (k : Int)) n) = some n := by
  intro n; simp [intSem]

end PV.Props.C01Core
