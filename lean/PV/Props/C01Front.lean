import PV.Proofs.FrontRun
import PV.Props.C01Strip
/-!
# C01 (front end + code generator) — from the Python dialect to the chip, for the proved fragment

`PV.Front.front_sound` (in `PV/Proofs/FrontStmt.lean`): for a function-free source program inside the fragment of
`PV.Front.flatten` (numbers, global variables, binary / unary operators, device reads, intrinsics, own-stack reads and writes,
assignments, device writes, `if` / `else` on a comparison or a variable, `while` on a comparison of plain operands, `while True`,
`break`, `continue`, `yield`, `sleep`, `pass`), whenever the reference semantics `PV.Src` runs the program to its end, the
flattened core program ends too, with the same effect trace and the same own-stack memory.

`source_to_chip_done` composes it with `PV.Props.C01Core.compile_correct_done`: the IC10 machine running
`comp (flatten p)` reaches exactly the effect trace of the SOURCE PROGRAM under the dialect semantics, then halts — for every
environment (= every behaviour of the attached devices), every initial register file, every fuel.  The tie to the real
transpiler is per program (`harness/c01.py`, streams `incore*`): the real pre-allocation code is instruction for instruction
`comp (PV.Flatten.flatten p)`, and `PV.Flatten.flatten p = PV.Front.flatten p` on the fragment (`front` in `core-compare`).

Hypotheses about the value domain are collected in `PV.Front.SemOk` (what `0`, unary minus, `move`, `True`, the comparison
operations and truthiness mean); `intSemOk` shows them satisfiable together with the branch-suffix tables REGENERATED from the
transpiler's source (`PV.Gen.cmpSuffix` / `negCmpSuffix`), on the integers.
-/
namespace PV.Props.C01Front
open PV.IC10 PV.Core PV.Front

variable {V : Type}

/-- **source program → chip, terminating runs**: if the dialect semantics runs the main code to its end (`st'`), the chip running
    the model generator's code for the flattened program reaches exactly the effect trace of `st'`, halts, and the trace never
    changes again -/
theorem source_to_chip_done (sem : Sem V) (lo : Nat) (env : Env V) (lit : Nat → V) (hlit : ∀ n, sem.toAddr (lit n) = some n)
    (hof : ∀ n, sem.toAddr (sem.ofNat n) = some n) (hlo : lo ≤ stackSize) (cf : PV.Flatten.Cfg V) (hok : SemOk sem cf)
    (p : PV.Src.Program V) (s : Stmt V) (hflat : PV.Front.flatten cf p = some s) (hgood : Good sem lo (fun _ => False) s)
    (fuel : Nat) (zero : V) (st' : PV.Src.State V) (loc' : PV.Src.Store V)
    (hrun : PV.Src.execBlock sem env p fuel [] { globals := [], mem := fun _ => zero, sp := 0, trace := [] } p.main = (st', .ok (loc', .normal)))
    (regs0 : Reg → V) (hsp : regs0 Special.sp = sem.ofNat 0) :
    ∃ k, ∀ j, (run sem env (comp lit (fun _ => 0) s 0 0 0 0) (k + (j + 1)) (mk ⟨regs0, fun _ => zero, []⟩ 0)).trace = st'.trace ∧
              (run sem env (comp lit (fun _ => 0) s 0 0 0 0) (k + (j + 1)) (mk ⟨regs0, fun _ => zero, []⟩ 0)).halted = true := by
  obtain ⟨σ', hexec, htr, _⟩ := front_sound sem env (fun _ => Stmt.skip) cf hok p s hflat fuel zero st' loc' .normal hrun
    ⟨regs0, fun _ => zero, []⟩ (fun _ => rfl) rfl
  obtain ⟨k, _, hk⟩ := PV.Props.C01Core.compile_correct_done sem lo env lit hlit hof hlo s hgood fuel ⟨regs0, fun _ => zero, []⟩ σ' hsp
    (hexec fuel (Nat.le_refl _))
  exact ⟨k, fun j => ⟨(hk j).1.trans htr, (hk j).2⟩⟩

/-- **source program → chip, programs that keep running** (the normal case on the chip: `while True:` at the end): when the
    dialect semantics runs out of fuel having performed the effects `τ`, and the flattened program is still running after as
    many loop iterations, the chip reaches a state whose effect trace extends `τ` — every finite prefix of the source behaviour is
    a prefix of the chip's -/
theorem source_to_chip_running (sem : Sem V) (lo : Nat) (env : Env V) (lit : Nat → V) (hlit : ∀ n, sem.toAddr (lit n) = some n)
    (hof : ∀ n, sem.toAddr (sem.ofNat n) = some n) (hlo : lo ≤ stackSize) (cf : PV.Flatten.Cfg V) (hok : SemOk sem cf)
    (p : PV.Src.Program V) (s : Stmt V) (hflat : PV.Front.flatten cf p = some s) (hgood : Good sem lo (fun _ => False) s)
    (fuel : Nat) (zero : V) (st' : PV.Src.State V)
    (hrun : PV.Src.execBlock sem env p fuel [] { globals := [], mem := fun _ => zero, sp := 0, trace := [] } p.main = (st', .error .fuel))
    (regs0 : Reg → V) (hsp : regs0 Special.sp = sem.ofNat 0) (σ' : SSt V)
    (hcore : exec sem env (procOf []) fuel s ⟨regs0, fun _ => zero, []⟩ = .timeout σ') :
    ∃ k, st'.trace <:+ (run sem env (compProg lit s []) k (mk ⟨regs0, fun _ => zero, []⟩ 0)).trace := by
  have hg := front_prefix sem env (procOf []) cf hok p s hflat fuel zero st' hrun ⟨regs0, fun _ => zero, []⟩ (fun _ => rfl) rfl fuel (Nat.le_refl _)
  rw [hcore] at hg
  obtain ⟨k, _, hk, _⟩ := PV.Props.C01Core.compile_correct_running sem lo env lit hlit hof hlo s [] (fun _ => 0) 0 (Nat.zero_le _)
    (fun k hk => by simp at hk) (good_mono sem lo _ _ (fun _ h => h.elim) s hgood) (fun k hk => by simp at hk) fuel ⟨regs0, fun _ => zero, []⟩ σ' hsp hcore
  exact ⟨k, by rw [hk]; exact hg⟩

/-- **source program → label-free chip program** (what `remove_labels=True` emits), terminating runs: composition with C05's
    label-removal simulation -/
theorem source_to_chip_done_stripped (sem : Sem V) (lo : Nat) (env : Env V) (lit : Nat → V) (hlit : ∀ n, sem.toAddr (lit n) = some n)
    (hof : ∀ n, sem.toAddr (sem.ofNat n) = some n) (hlo : lo ≤ stackSize) (cf : PV.Flatten.Cfg V) (hok : SemOk sem cf)
    (p : PV.Src.Program V) (s : Stmt V) (hflat : PV.Front.flatten cf p = some s) (hgood : Good sem lo (fun _ => False) s)
    (fuel : Nat) (zero : V) (st' : PV.Src.State V) (loc' : PV.Src.Store V)
    (hrun : PV.Src.execBlock sem env p fuel [] { globals := [], mem := fun _ => zero, sp := 0, trace := [] } p.main = (st', .ok (loc', .normal)))
    (regs0 : Reg → V) (hsp : regs0 Special.sp = sem.ofNat 0) :
    ∃ k, (run sem env (PV.Strip.strip sem lit (PV.Props.C01Strip.labelLines (comp lit (fun _ => 0) s 0 0 0 0)) (comp lit (fun _ => 0) s 0 0 0 0)) k
            (mk ⟨regs0, fun _ => zero, []⟩ 0)).trace = st'.trace ∧
         (run sem env (PV.Strip.strip sem lit (PV.Props.C01Strip.labelLines (comp lit (fun _ => 0) s 0 0 0 0)) (comp lit (fun _ => 0) s 0 0 0 0)) k
            (mk ⟨regs0, fun _ => zero, []⟩ 0)).halted = true := by
  obtain ⟨σ', hexec, htr, _⟩ := front_sound sem env (fun _ => Stmt.skip) cf hok p s hflat fuel zero st' loc' .normal hrun
    ⟨regs0, fun _ => zero, []⟩ (fun _ => rfl) rfl
  obtain ⟨k, hk1, hk2⟩ := PV.Props.C01Strip.compile_correct_done_stripped sem env lit hlit hof lo hlo s hgood fuel ⟨regs0, fun _ => zero, []⟩ σ' hsp
    (hexec fuel (Nat.le_refl _))
  exact ⟨k, hk1.trans htr, hk2⟩

/-- … and programs that keep running -/
theorem source_to_chip_running_stripped (sem : Sem V) (lo : Nat) (env : Env V) (lit : Nat → V) (hlit : ∀ n, sem.toAddr (lit n) = some n)
    (hof : ∀ n, sem.toAddr (sem.ofNat n) = some n) (hlo : lo ≤ stackSize) (cf : PV.Flatten.Cfg V) (hok : SemOk sem cf)
    (p : PV.Src.Program V) (s : Stmt V) (hflat : PV.Front.flatten cf p = some s) (hgood : Good sem lo (fun _ => False) s)
    (fuel : Nat) (zero : V) (st' : PV.Src.State V)
    (hrun : PV.Src.execBlock sem env p fuel [] { globals := [], mem := fun _ => zero, sp := 0, trace := [] } p.main = (st', .error .fuel))
    (regs0 : Reg → V) (hsp : regs0 Special.sp = sem.ofNat 0) (σ' : SSt V)
    (hcore : exec sem env (fun _ => Stmt.skip) fuel s ⟨regs0, fun _ => zero, []⟩ = .timeout σ') :
    ∃ k, st'.trace <:+ (run sem env (PV.Strip.strip sem lit (PV.Props.C01Strip.labelLines (comp lit (fun _ => 0) s 0 0 0 0)) (comp lit (fun _ => 0) s 0 0 0 0)) k
            (mk ⟨regs0, fun _ => zero, []⟩ 0)).trace := by
  have hg := front_prefix sem env (fun _ => Stmt.skip) cf hok p s hflat fuel zero st' hrun ⟨regs0, fun _ => zero, []⟩ (fun _ => rfl) rfl fuel (Nat.le_refl _)
  rw [hcore] at hg
  obtain ⟨k, hk, _⟩ := PV.Props.C01Strip.compile_correct_running_stripped sem env lit hlit hof lo hlo s hgood fuel ⟨regs0, fun _ => zero, []⟩ σ' hsp hcore
  exact ⟨k, by rw [hk]; exact hg⟩

/-! ### the hypotheses are satisfiable: integers, with the regenerated suffix tables -/

def intSem : Sem Int :=
  { alu := fun op vs => match op, vs with
      | "add", [a, b] => a + b
      | "sub", [a, b] => a - b
      | "mul", [a, b] => a * b
      | "move", [a] => a
      | "select", [c, a, b] => if c != 0 then a else b
      | "seqz", [a] => if a = 0 then 1 else 0
      | "slt", [a, b] => if a < b then 1 else 0
      | "sgt", [a, b] => if a > b then 1 else 0
      | "sle", [a, b] => if a ≤ b then 1 else 0
      | "sge", [a, b] => if a ≥ b then 1 else 0
      | "seq", [a, b] => if a = b then 1 else 0
      | "sne", [a, b] => if a ≠ b then 1 else 0
      | _, _ => 0,
    cond := fun c vs => match c, vs with
      | "lt", [a, b] => decide (a < b)
      | "gt", [a, b] => decide (a > b)
      | "le", [a, b] => decide (a ≤ b)
      | "ge", [a, b] => decide (a ≥ b)
      | "eq", [a, b] => decide (a = b)
      | "ne", [a, b] => decide (a ≠ b)
      | "nez", [a] => decide (a ≠ 0)
      | "eqz", [a] => decide (a = 0)
      | _, _ => false,
    toAddr := fun v => if v < 0 then none else some v.toNat, ofNat := fun n => (n : Int), truthy := fun v => v != 0 }

def intCfg : PV.Flatten.Cfg Int :=
  { zero := 0, negV := fun v => -v, isOne := fun v => v == 1, isNeg := fun v => v < 0, ofNat := fun n => (n : Int) }

theorem intSemOk : SemOk intSem intCfg := by
  refine ⟨rfl, fun v => by simp [intSem, intCfg], fun v => rfl, fun v h => ?_, ?_, fun v => by show (v != 0) = decide (v ≠ 0); by_cases h : v = 0 <;> simp [h], fun c a b => rfl, fun v => by show ((if v = 0 then (1 : Int) else 0) != 0) = decide (v = 0); by_cases h : v = 0 <;> simp [h]⟩
  · simp only [intCfg, beq_iff_eq] at h
    subst h; rfl
  · intro op c neg hc hb a b
    have hop : op = "slt" ∨ op = "sgt" ∨ op = "sle" ∨ op = "sge" ∨ op = "seq" ∨ op = "sne" := by
      simpa [PV.Flatten.cmpNames] using hc
    rcases hop with rfl | rfl | rfl | rfl | rfl | rfl
    · have e : PV.Flatten.branchPair "slt" = some ("lt", "ge") := by decide
      rw [e] at hb; cases hb
      show ((if a < b then (1 : Int) else 0) != 0) = decide (a < b)
      by_cases h : a < b <;> simp [h]
    · have e : PV.Flatten.branchPair "sgt" = some ("gt", "le") := by decide
      rw [e] at hb; cases hb
      show ((if a > b then (1 : Int) else 0) != 0) = decide (a > b)
      by_cases h : a > b <;> simp [h]
    · have e : PV.Flatten.branchPair "sle" = some ("le", "gt") := by decide
      rw [e] at hb; cases hb
      show ((if a ≤ b then (1 : Int) else 0) != 0) = decide (a ≤ b)
      by_cases h : a ≤ b <;> simp [h]
    · have e : PV.Flatten.branchPair "sge" = some ("ge", "lt") := by decide
      rw [e] at hb; cases hb
      show ((if a ≥ b then (1 : Int) else 0) != 0) = decide (a ≥ b)
      by_cases h : a ≥ b <;> simp [h]
    · have e : PV.Flatten.branchPair "seq" = some ("eq", "ne") := by decide
      rw [e] at hb; cases hb
      show ((if a = b then (1 : Int) else 0) != 0) = decide (a = b)
      by_cases h : a = b <;> simp [h]
    · have e : PV.Flatten.branchPair "sne" = some ("ne", "eq") := by decide
      rw [e] at hb; cases hb
      show ((if a ≠ b then (1 : Int) else 0) != 0) = decide (a ≠ b)
      by_cases h : a = b <;> simp [h]

/-! ### non-vacuity: a counting loop with a device write and a conditional, through the whole chain -/

/-- `i = 0` / `while i < 3:` / `    i = i + 1` / `    if i == 2: write(i, 7)` / `    else: yield` -/
def demo : PV.Src.Program Int :=
  { funcs := [],
    main := [
      .gassign "i" (.bin "add" (.num 0) (.gvar "z")),
      .while (.bin "slt" (.gvar "i") (.num 3)) [
        .gassign "i" (.bin "add" (.gvar "i") (.num 1)),
        .ite (.bin "seq" (.gvar "i") (.num 2)) [.write "s" [.gvar "i", .num 7]] [.yield]]] }

def demo0 : PV.Src.Program Int := { demo with main := .gassign "z" (.un "neg" (.bin "sub" (.num 0) (.read "l" [.num 5]))) :: demo.main }

/-- the demo is inside the fragment -/
example : (PV.Front.flatten intCfg demo0).isSome = true := by decide

/-- does the reference semantics run the main code to its end with `n` effects? -/
def endsWith (p : PV.Src.Program Int) (fuel n : Nat) : Bool :=
  match PV.Src.execBlock intSem (fun _ _ _ => 0) p fuel [] { globals := [], mem := fun _ => 0, sp := 0, trace := [] } p.main with
  | (st, .ok (_, .normal)) => st.trace.length == n
  | _ => false

/-- … and the reference semantics runs it to the end (so the hypotheses of `source_to_chip_done` hold for it) -/
example : endsWith demo0 20 3 = true := by decide +kernel

end PV.Props.C01Front
