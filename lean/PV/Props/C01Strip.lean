import PV.Props.C01Core
import PV.Proofs.Strip
/-!
# C01 ∘ C05 — the model generator's code is still correct after label removal

`comp p` contains its labels as lines that do nothing.  `comp_ok`: those lines are exactly the `nop` lines, and every other
line is `simple` (direct jumps with literal targets, no `jal`, no relative branch) — the hypothesis `PV.Strip.Ok` of the
label-removal theorem.  Hence `compile_correct_running_stripped` / `compile_correct_done_stripped`: the program
`strip (comp p)` — what `remove_labels=True` emits for a core program — reaches every effect trace the source reaches.
-/
namespace PV.Props.C01Strip
open PV.IC10 PV.Core PV.Strip

variable {V : Type}

/-- the label lines of a machine program: its `nop` lines -/
def labelLines (P : List (Instr Reg V)) : Nat → Bool := fun n =>
  match P[n]? with
  | some i => i.kind == .nop
  | none => false

theorem lastIsLine_snoc (sem : Sem V) (lit : Nat → V) (hlit : ∀ n, sem.toAddr (lit n) = some n) (t : Nat) :
    ∀ args : List (Opnd Reg V), lastIsLine sem (args ++ [Opnd.num (lit t)]) = true := by
  intro args
  induction args with
  | nil => simp [lastIsLine, hlit]
  | cons o rest ih =>
    cases rest with
    | nil => simpa [lastIsLine] using ih
    | cons o2 r2 => simpa [lastIsLine] using ih

/-- every line `comp` emits is the label no-op or a simple instruction of another kind -/
theorem comp_lines (sem : Sem V) (lit : Nat → V) (hlit : ∀ n, sem.toAddr (lit n) = some n) :
    ∀ (p : Stmt V), NoCall p → ∀ (base cl bl rl : Nat) (x : Instr Reg V), x ∈ comp lit (fun _ => 0) p base cl bl rl →
      x = nopI ∨ (x.kind ≠ .nop ∧ simple sem x = true) := by
  intro p
  induction p with
  | alu r op args => intro _ base cl bl rl x hx; simp [comp] at hx; subst hx; right; simp [simple, isExcluded, isDirect]
  | load r q args => intro _ base cl bl rl x hx; simp [comp] at hx; subst hx; right; simp [simple, isExcluded, isDirect]
  | store q args => intro _ base cl bl rl x hx; simp [comp] at hx; subst hx; right; simp [simple, isExcluded, isDirect]
  | yield => intro _ base cl bl rl x hx; simp [comp] at hx; subst hx; right; simp [simple, isExcluded, isDirect]
  | sleep a => intro _ base cl bl rl x hx; simp [comp] at hx; subst hx; right; simp [simple, isExcluded, isDirect]
  | skip => intro _ base cl bl rl x hx; simp [comp] at hx
  | ret => intro _ base cl bl rl x hx; simp [comp] at hx; subst hx; right; simp [simple, isExcluded, isDirect, lastIsLine, hlit]
  | call k => intro hnc; exact hnc.elim
  | getm r a => intro _ base cl bl rl x hx; simp [comp] at hx; subst hx; right; simp [simple, isExcluded, isDirect]
  | putm a v => intro _ base cl bl rl x hx; simp [comp] at hx; subst hx; right; simp [simple, isExcluded, isDirect]
  | brk => intro _ base cl bl rl x hx; simp [comp] at hx; subst hx; right; simp [simple, isExcluded, isDirect, lastIsLine, hlit]
  | cont => intro _ base cl bl rl x hx; simp [comp] at hx; subst hx; right; simp [simple, isExcluded, isDirect, lastIsLine, hlit]
  | seq p q ihp ihq =>
    intro hnc base cl bl rl x hx
    simp only [comp, List.mem_append] at hx
    rcases hx with hx | hx
    · exact ihp hnc.1 _ _ _ _ x hx
    · exact ihq hnc.2 _ _ _ _ x hx
  | ite c neg args p q ihp ihq =>
    intro hnc base cl bl rl x hx
    simp only [comp, List.mem_append, List.mem_cons, List.mem_nil_iff, or_false, List.mem_singleton] at hx
    rcases hx with (((rfl | hx) | (rfl | rfl)) | hx) | rfl
    · right; simp [simple, isExcluded, isDirect, lastIsLine_snoc sem lit hlit]
    · exact ihp hnc.1 _ _ _ _ x hx
    · right; simp [simple, isExcluded, isDirect, lastIsLine, hlit]
    · left; rfl
    · exact ihq hnc.2 _ _ _ _ x hx
    · left; rfl
  | ifThen c neg args p ihp =>
    intro hnc base cl bl rl x hx
    simp only [comp, List.mem_append, List.mem_cons, List.mem_nil_iff, or_false, List.mem_singleton] at hx
    rcases hx with ((rfl | hx) | (rfl | rfl))
    · right; simp [simple, isExcluded, isDirect, lastIsLine_snoc sem lit hlit]
    · exact ihp hnc _ _ _ _ x hx
    · left; rfl
    · left; rfl
  | «while» c neg args body ih =>
    intro hnc base cl bl rl x hx
    simp only [comp, List.mem_append, List.mem_cons, List.mem_nil_iff, or_false, List.mem_singleton] at hx
    rcases hx with (((rfl | rfl) | hx) | (rfl | rfl))
    · left; rfl
    · right; simp [simple, isExcluded, isDirect, lastIsLine_snoc sem lit hlit]
    · exact ih hnc _ _ _ _ x hx
    · right; simp [simple, isExcluded, isDirect, lastIsLine, hlit]
    · left; rfl
  | inl body ih =>
    intro hnc base cl bl rl x hx
    simp only [comp, List.mem_append, List.mem_cons, List.mem_nil_iff, or_false, List.mem_singleton] at hx
    rcases hx with (rfl | hx) | rfl
    · left; rfl
    · exact ih hnc _ _ _ _ x hx
    · left; rfl
  | loop body ih =>
    intro hnc base cl bl rl x hx
    simp only [comp, List.mem_append, List.mem_cons, List.mem_nil_iff, or_false, List.mem_singleton] at hx
    rcases hx with ((rfl | hx) | (rfl | rfl))
    · left; rfl
    · exact ih hnc _ _ _ _ x hx
    · right; simp [simple, isExcluded, isDirect, lastIsLine, hlit]
    · left; rfl

/-- **the generated code satisfies the hypothesis of the label-removal theorem**, with its `nop` lines as label lines -/
theorem comp_ok (sem : Sem V) (lit : Nat → V) (hlit : ∀ n, sem.toAddr (lit n) = some n) (p : Stmt V) (hnc : NoCall p) :
    PV.Strip.Ok sem lit (labelLines (comp lit (fun _ => 0) p 0 0 0 0)) (comp lit (fun _ => 0) p 0 0 0 0) := by
  refine ⟨?_, ?_, hlit⟩
  · intro i hi
    simp only [labelLines] at hi
    cases hx : (comp lit (fun _ => 0) p 0 0 0 0)[i]? with
    | none => rw [hx] at hi; cases hi
    | some x =>
      rw [hx] at hi
      have hm : x ∈ comp lit (fun _ => 0) p 0 0 0 0 := List.mem_of_getElem? hx
      rcases comp_lines sem lit hlit p hnc 0 0 0 0 x hm with rfl | ⟨hk, _⟩
      · rfl
      · simp only [beq_iff_eq] at hi; exact absurd hi hk
  · intro i x hx hl
    have hm : x ∈ comp lit (fun _ => 0) p 0 0 0 0 := List.mem_of_getElem? hx
    rcases comp_lines sem lit hlit p hnc 0 0 0 0 x hm with rfl | ⟨_, hs⟩
    · simp [labelLines, hx, nopI] at hl
    · exact hs

/-- **endless and long-running programs, labels removed**: every effect trace the source reaches is reached by the label-free
    code -/
theorem compile_correct_running_stripped (sem : Sem V) (env : Env V) (lit : Nat → V) (hlit : ∀ n, sem.toAddr (lit n) = some n)
    (hof : ∀ n, sem.toAddr (sem.ofNat n) = some n) (lo : Nat) (hlo : lo ≤ stackSize) (p : Stmt V) (hgood : Good sem lo (fun _ => False) p) (fuel : Nat) (σ σ' : SSt V)
    (hsp : σ.regs Special.sp = sem.ofNat 0) (h : exec sem env (fun _ => .skip) fuel p σ = .timeout σ') :
    ∃ k, (run sem env (strip sem lit (labelLines (comp lit (fun _ => 0) p 0 0 0 0)) (comp lit (fun _ => 0) p 0 0 0 0)) k (mk σ 0)).trace = σ'.trace ∧
         (run sem env (strip sem lit (labelLines (comp lit (fun _ => 0) p 0 0 0 0)) (comp lit (fun _ => 0) p 0 0 0 0)) k (mk σ 0)).halted = false := by
  have hok : ∀ k, (fun _ : Nat => False) k → ProcOk sem lo lit (fun _ => 0) (fun _ => Stmt.skip) (comp lit (fun _ => 0) p 0 0 0 0) (fun _ => 0) (fun _ => False) k :=
    fun k hk => hk.elim
  obtain ⟨k, pc, _, _, _, hk⟩ := (sim sem lo env lit (fun _ => 0) (fun _ => .skip) (comp lit (fun _ => 0) p 0 0 0 0) (fun _ => 0) (fun _ => False) hlit hof hlo hok fuel p
    (fun _ => False) 0 (fun k hk => hk.elim) hgood 0 0 0 0 σ (mk σ 0) 0 [] (by omega) (PV.Props.C01Core.codeAt_self _) (at_mk sem lo σ 0 hsp)).2 σ' h
  have ht := hk.trace
  have hh := hk.halted
  have h0 : Sim (labelLines (comp lit (fun _ => 0) p 0 0 0 0)) (mk σ 0) (mk σ 0) := ⟨rfl, rfl, rfl, rfl, rfl⟩
  obtain ⟨k', _, hs⟩ := strip_sim_fwd sem lit _ env (comp lit (fun _ => 0) p 0 0 0 0) (comp_ok sem lit hlit p (good_false_nocall sem lo p hgood)) k _ _ h0
  exact ⟨k', by rw [hs.trace, ht], by rw [hs.halted, hh]⟩

/-- **terminating programs, labels removed**: the label-free code reaches the source's final effect trace and stops -/
theorem compile_correct_done_stripped (sem : Sem V) (env : Env V) (lit : Nat → V) (hlit : ∀ n, sem.toAddr (lit n) = some n)
    (hof : ∀ n, sem.toAddr (sem.ofNat n) = some n) (lo : Nat) (hlo : lo ≤ stackSize) (p : Stmt V) (hgood : Good sem lo (fun _ => False) p) (fuel : Nat) (σ σ' : SSt V)
    (hsp : σ.regs Special.sp = sem.ofNat 0) (h : exec sem env (fun _ => .skip) fuel p σ = .done σ') :
    ∃ k, (run sem env (strip sem lit (labelLines (comp lit (fun _ => 0) p 0 0 0 0)) (comp lit (fun _ => 0) p 0 0 0 0)) k (mk σ 0)).trace = σ'.trace ∧
         (run sem env (strip sem lit (labelLines (comp lit (fun _ => 0) p 0 0 0 0)) (comp lit (fun _ => 0) p 0 0 0 0)) k (mk σ 0)).halted = true := by
  obtain ⟨k, _, hall⟩ := PV.Props.C01Core.compile_correct_done sem lo env lit hlit hof hlo p hgood fuel σ σ' hsp h
  obtain ⟨ht, hh⟩ := hall 0
  have h0 : Sim (labelLines (comp lit (fun _ => 0) p 0 0 0 0)) (mk σ 0) (mk σ 0) := ⟨rfl, rfl, rfl, rfl, rfl⟩
  obtain ⟨k', _, hs⟩ := strip_sim_fwd sem lit _ env (comp lit (fun _ => 0) p 0 0 0 0) (comp_ok sem lit hlit p (good_false_nocall sem lo p hgood)) (k + (0 + 1)) _ _ h0
  exact ⟨k', by rw [hs.trace, ht], by rw [hs.halted, hh]⟩

end PV.Props.C01Strip
