import PV.Props.C05
import PV.Props.C08
import PV.Props.C09
import PV.Props.C15
/-!
# C02 — every combination of compile options preserves behaviour   (partial)

One statement per option whose effect is textual; each is a corollary of a model theorem proved for its own property:
* comments (`original_code_as_comment`, `generated_comments`, `append_version`): `comment_is_invisible` — text appended to a
  line after blanks and `#` is not seen by the loader (C09);
* `compact`: `compact_tokens_same_value` — every symbolic token denotes the same number in both output modes (C08);
* `remove_labels`: `label_is_next_instruction_index` — the number that replaces a label is the index of the instruction that
  follows it, and removal keeps the instruction lines in order (C05); `remove_labels_preserves_behaviour` — on the machine,
  the program without its label lines produces the same effect traces as the program with them (programs of direct control
  flow; C05 `label_removal_preserves_traces`);
* options given by `# pytrapic:` comments: `pragma_equals_api` (C15).
For `inline_functions`, `tail_call_optimization` and `use_push_pop_functions` (different lowerings of the same source) no
theorem about the real generator exists; they are explored by running the real outputs of one source under many option
vectors against the reference semantics (harness/c02.py).
-/
namespace PV.Props.C02
open PV.IC10.Parse

theorem comment_is_invisible (l blanks note : List Char) (h : ∀ c ∈ l, c ≠ '#')
    (hbal : l.foldl (fun q c => if c = '"' then !q else q) false = false) (hb : ∀ c ∈ blanks, c = ' ') :
    stripComment (l ++ blanks ++ '#' :: note) false = l ++ blanks :=
  PV.Props.C09.version_note_is_comment l blanks note h hbal hb

theorem compact_tokens_same_value (T : PV.Tokens.EnumTable) (pos : Option String) (hs : List Int) (s : List Char) :
    PV.Tokens.denote T pos (PV.Tokens.spell hs (PV.Tokens.computeHash .compact s)) =
    PV.Tokens.denote T pos (PV.Tokens.spell hs (PV.Tokens.computeHash .verbose s)) := by
  rw [PV.Props.C08.hash_compact_denotes_verbose, PV.Props.C08.hash_compact_denotes_verbose]

theorem label_is_next_instruction_index (l : String) (pre post : List PV.Labels.Line) (h : PV.Labels.defCount l pre = 0) :
    PV.Labels.substTok (pre ++ PV.Labels.Line.label l :: post) l = toString (PV.Labels.countInstrs pre) :=
  PV.Props.C05.substTok_label l pre post h

/-- compiling a source with its directives is compiling it with the options the directives produce (the compile entry point
    applies the scanner first; applying it to already scanned options changes nothing) -/
theorem pragma_equals_api {R : Type} (core : List Char → PV.Pragma.Opts → R) (src : List Char) (o : PV.Pragma.Opts) :
    (fun s b => core s (PV.Pragma.scan s b)) src (PV.Pragma.scan src o) = (fun s b => core s (PV.Pragma.scan s b)) src o :=
  PV.Props.C15.scan_eq_api core src o

/-- `remove_labels` on the machine: deleting the label lines `L` and renumbering the jump targets changes no effect trace and
    no halting behaviour — every environment, any number of steps; the labelled program only spends extra steps on its label
    lines (programs without `jal` / relative branches: `PV.Strip.Ok`) -/
theorem remove_labels_preserves_behaviour {R V : Type} [DecidableEq R] [PV.IC10.Special R] (sem : PV.IC10.Sem V) (lit : Nat → V)
    (L : Nat → Bool) (env : PV.IC10.Env V) (P : List (PV.IC10.Instr R V)) (hok : PV.Strip.Ok sem lit L P) (regs : R → V) (mem : Nat → V) :
    let s0 : PV.IC10.St R V := ⟨regs, mem, 0, [], false⟩
    (∀ m, ∃ k, k ≤ m ∧ (PV.IC10.run sem env P m s0).trace = (PV.IC10.run sem env (PV.Strip.strip sem lit L P) k s0).trace ∧
        (PV.IC10.run sem env P m s0).halted = (PV.IC10.run sem env (PV.Strip.strip sem lit L P) k s0).halted) ∧
    (∀ k, ∃ m, k ≤ m ∧ (PV.IC10.run sem env P m s0).trace = (PV.IC10.run sem env (PV.Strip.strip sem lit L P) k s0).trace ∧
        (PV.IC10.run sem env P m s0).halted = (PV.IC10.run sem env (PV.Strip.strip sem lit L P) k s0).halted) :=
  PV.Props.C05.label_removal_preserves_traces sem lit L env P hok _ _ (PV.Props.C05.initial_states_related L regs mem)

end PV.Props.C02
