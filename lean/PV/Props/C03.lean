import PV.Model.Fold
import PV.Gen.Tables
/-!
# C03 — compile-time evaluation gives the same value the chip would compute   (partial: integer operators)

* `tables_are_spec` — the operator tables regenerated from utils.py on every run equal the hand-written specification
  tables (kernel evaluation): a changed lambda or opcode breaks exactly this obligation;
* `fold_binop_agrees_partial` — for every row of the specification table whose operator is an exact integer operation, and
  ALL integer operands in the unambiguous range (`Guard`: positive modulus, non-negative shift count, non-negative value
  for `>>`), the value Python computes when folding equals the value of the paired IC10 opcode at run time;
* `fold_bool_ops_01` — `and` / `or` agree with the bitwise opcodes for operands that are 0 or 1 (comparison results);
  beyond that Python's value-returning `and`/`or` differ (known finding F-C03-b, witness below);
* `fold_unop_agrees` — `-x` is `sub 0 x`, `not x` is `seqz x`; `~` has no existing opcode (F-C03-c).
`/`, `**`, math functions, HASH/STR, list indexing and propagation through variables are decided on the running interpreter
by the property's own experiment (constant operand vs the same operand loaded from the stack), see harness/c03.py.
-/
namespace PV.Props.C03
open PV PV.Fold PV.Gen

/-- **the regenerated tables are the specification tables** — the same rows, in whatever order the source lists them -/
theorem tables_are_spec :
    (∀ r ∈ binopTable, r ∈ specBinops) ∧ (∀ r ∈ specBinops, r ∈ binopTable) ∧ binopTable.length = specBinops.length ∧
    (∀ r ∈ unopTable, r ∈ specUnops) ∧ (∀ r ∈ specUnops, r ∈ unopTable) ∧ unopTable.length = specUnops.length := by decide

theorem icmod_eq_pymod (a b : Int) (hb : 0 < b) :
    (if Int.tmod a b < 0 then Int.tmod a b + b else Int.tmod a b) = Int.fmod a b := by
  rw [Int.fmod_eq_emod_of_nonneg a (by omega : (0:Int) ≤ b)]
  rw [Int.tmod_eq_emod]
  have h1 := Int.emod_nonneg a (by omega : b ≠ 0)
  have h2 := Int.emod_lt_of_pos a hb
  have hnat : (b.natAbs : Int) = b := by omega
  by_cases hd : 0 ≤ a ∨ b ∣ a
  · rw [if_pos hd]
    split <;> omega
  · rw [if_neg hd]
    have hnd : ¬ b ∣ a := fun h => hd (Or.inr h)
    have hne : a % b ≠ 0 := fun h => hnd (Int.dvd_of_emod_eq_zero h)
    rw [hnat]
    split <;> omega

/-- **folding an integer operator = running its opcode**, all operands in the unambiguous range -/
theorem fold_binop_agrees_partial (op opcode : String) (fn : PyExpr) (hrow : (op, opcode, fn) ∈ specBinops)
    (hag : op ∈ agreeing) (a b : Int) (hg : Guard op a b) :
    ∃ v, pyEval [a, b] fn = some v ∧ icAlu opcode [a, b] = some v.num := by
  obtain ⟨gmod, gshl, gshr⟩ := hg
  simp only [specBinops, List.mem_cons, Prod.mk.injEq, List.mem_nil_iff, or_false] at hrow
  simp only [agreeing, List.mem_cons, List.mem_nil_iff, or_false] at hag
  rcases hrow with ⟨rfl, rfl, rfl⟩ | ⟨rfl, rfl, rfl⟩ | ⟨rfl, rfl, rfl⟩ | ⟨rfl, rfl, rfl⟩ | ⟨rfl, rfl, rfl⟩ | ⟨rfl, rfl, rfl⟩ |
    ⟨rfl, rfl, rfl⟩ | ⟨rfl, rfl, rfl⟩ | ⟨rfl, rfl, rfl⟩ | ⟨rfl, rfl, rfl⟩ | ⟨rfl, rfl, rfl⟩ | ⟨rfl, rfl, rfl⟩ | ⟨rfl, rfl, rfl⟩ |
    ⟨rfl, rfl, rfl⟩ | ⟨rfl, rfl, rfl⟩ | ⟨rfl, rfl, rfl⟩ | ⟨rfl, rfl, rfl⟩ | ⟨rfl, rfl, rfl⟩
  -- + - *
  · exact ⟨.int (a + b), by simp [pyEval, PyVal.num], by simp [icAlu, PyVal.num]⟩
  · exact ⟨.int (a - b), by simp [pyEval, PyVal.num], by simp [icAlu, PyVal.num]⟩
  · exact ⟨.int (a * b), by simp [pyEval, PyVal.num], by simp [icAlu, PyVal.num]⟩
  -- / is not an agreeing row
  · simp at hag
  -- %
  · have hb := gmod rfl
    have hne : b ≠ 0 := by omega
    refine ⟨.int (Int.fmod a b), by simp [pyEval, PyVal.num, hne], ?_⟩
    simp only [icAlu, hne, if_false, PyVal.num]
    rw [icmod_eq_pymod a b hb]
  -- ** , and, or are not agreeing rows
  · simp at hag
  · simp at hag
  · simp at hag
  -- ^ &
  · exact ⟨.int (bxor a b), by simp [pyEval, PyVal.num], by simp [icAlu, PyVal.num]⟩
  · exact ⟨.int (band a b), by simp [pyEval, PyVal.num], by simp [icAlu, PyVal.num]⟩
  -- >> <<
  · obtain ⟨hb, ha⟩ := gshr rfl
    have h1 : ¬ b < 0 := by omega
    have h2 : ¬ (b < 0 ∨ a < 0) := by omega
    exact ⟨.int (a >>> b.toNat), by simp [pyEval, PyVal.num, h1], by simp [icAlu, PyVal.num, h2]⟩
  · have hb := gshl rfl
    have h1 : ¬ b < 0 := by omega
    exact ⟨.int (a <<< b.toNat), by simp [pyEval, PyVal.num, h1], by simp [icAlu, PyVal.num, h1]⟩
  -- comparisons
  · exact ⟨_, rfl, rfl⟩
  · exact ⟨_, rfl, rfl⟩
  · exact ⟨_, rfl, rfl⟩
  · exact ⟨_, rfl, rfl⟩
  · exact ⟨_, rfl, rfl⟩
  · exact ⟨_, rfl, rfl⟩

/-- **`and` / `or` of truth values**: for operands 0 or 1 the folded value equals the bitwise opcode -/
theorem fold_bool_ops_01 (op opcode : String) (fn : PyExpr) (hrow : (op, opcode, fn) ∈ specBinops)
    (hop : op = "and" ∨ op = "or") (a b : Int) (ha : a = 0 ∨ a = 1) (hb : b = 0 ∨ b = 1) :
    ∃ v, pyEval [a, b] fn = some v ∧ icAlu opcode [a, b] = some v.num := by
  simp only [specBinops, List.mem_cons, Prod.mk.injEq, List.mem_nil_iff, or_false] at hrow
  rcases hop with rfl | rfl
  · have : opcode = "and" ∧ fn = (.boolop "and" (.e (.param 0)) (.e (.param 1))) := by
      rcases hrow with h | h | h | h | h | h | h | h | h | h | h | h | h | h | h | h | h | h <;> simp_all
    obtain ⟨rfl, rfl⟩ := this
    rcases ha with rfl | rfl <;> rcases hb with rfl | rfl <;> exact ⟨_, by simp [pyEval, PyVal.num, PyVal.truthy]; rfl, by decide⟩
  · have : opcode = "or" ∧ fn = (.boolop "or" (.e (.param 0)) (.e (.param 1))) := by
      rcases hrow with h | h | h | h | h | h | h | h | h | h | h | h | h | h | h | h | h | h <;> simp_all
    obtain ⟨rfl, rfl⟩ := this
    rcases ha with rfl | rfl <;> rcases hb with rfl | rfl <;> exact ⟨_, by simp [pyEval, PyVal.num, PyVal.truthy]; rfl, by decide⟩

/-- `-x` folds like `sub 0 x`, `not x` like `seqz x` — all integers -/
theorem fold_unop_agrees (op opcode : String) (fn : PyExpr) (hrow : (op, opcode, fn) ∈ specUnops) (hop : op ≠ "~") (a : Int) :
    ∃ v, pyEval [a] fn = some v ∧ icUnop opcode a = some v.num := by
  simp only [specUnops, List.mem_cons, Prod.mk.injEq, List.mem_nil_iff, or_false] at hrow
  rcases hrow with ⟨rfl, rfl, rfl⟩ | ⟨rfl, rfl, rfl⟩ | ⟨rfl, rfl, rfl⟩
  · exact ⟨.int (-a), by simp [pyEval, PyVal.num], by simp [icUnop, icAlu, PyVal.num]⟩
  · exact absurd rfl hop
  · refine ⟨_, rfl, ?_⟩
    simp only [pyEval, icUnop, icAlu, PyVal.num, PyVal.truthy, b2i, eqB]
    by_cases h : a = 0 <;> simp [h]

/-- F-C03-b (known): Python's `and` returns an operand, the chip's `and` is bitwise — they differ beyond truth values -/
theorem and_differs_beyond_01 : ∃ a b : Int, (pyEval [a, b] (.boolop "and" (.e (.param 0)) (.e (.param 1)))).map PyVal.num ≠ icAlu "and" [a, b] :=
  ⟨2, 4, by decide⟩

/-! non-vacuity -/
example : Guard "%" (-7) 3 ∧ (pyEval [-7, 3] (.bin "mod" (.e (.param 0)) (.e (.param 1)))) = some (.int 2) ∧ icAlu "mod" [-7, 3] = some 2 := by
  refine ⟨⟨fun _ => by omega, fun h => by simp at h, fun h => by simp at h⟩, by decide, by decide⟩

end PV.Props.C03
