import PV.Proofs.RegAlloc
import PV.Proofs.AllocSound
/-!
# C04 — register allocation never lets one live value overwrite another

Model theorems about the allocator (`PV.RegAlloc`, a replica of register_assignment.py tied to the code by reproducing the
real virtual→physical map of every compiled program of a run):
* `colors_proper` — two symbols whose line intervals overlap get different colours (all interval lists);
* `scope_registers_ok` — every register a scope assigns is one of r0–r15, is none of the registers blocked by any of its
  callers (values live across the call), and is counted in the reported register set (C17);
* `out_of_registers_is_error` — when a colour has no available register the result is the error, never a mapping.
Whether line intervals cover the real liveness is NOT a theorem (it is false on the pinned tree, known findings F-C04-b/c/e):
it is decided per compiled program by the validator `PV.AllocCheck.checkAlloc`, whose soundness is `PV.Props.C04Sound`.
-/
namespace PV.Props.C04
open PV.RegAlloc

theorem colorsFrom_length (l : List Iv) : ∀ st, (colorsFrom st l).length = l.length := by
  induction l with
  | nil => intro st; rfl
  | cons x xs ih => intro st; simp [colorsFrom, ih]

/-- the pairs (interval, colour) produced from any state satisfying the invariant are pairwise conflict-free -/
theorem colorsFrom_pairwise (l : List Iv) : ∀ (st : St) (done : List (Iv × Nat)) (t : Nat), Inv st done t →
    (∀ s ∈ l, t ≤ s.1) → l.Pairwise (fun a b => a.1 ≤ b.1) →
    (l.zip (colorsFrom st l)).Pairwise (fun a b => b.1.1 < a.1.2 → a.2 ≠ b.2) := by
  induction l with
  | nil => intro st done t _ _ _; simp [colorsFrom]
  | cons s rest ih =>
    intro st done t hinv hge hsorted
    obtain ⟨hinv', _⟩ := step_inv st done t s hinv (hge s (by simp))
    have hs := List.pairwise_cons.mp hsorted
    simp only [colorsFrom, List.zip_cons_cons, List.pairwise_cons]
    refine ⟨?_, ih (stepSym st s).1 ((s, (stepSym st s).2) :: done) s.1 hinv' (fun x hx => hs.1 x hx) hs.2⟩
    intro b hb hov
    -- b is the j-th element of the zipped rest
    obtain ⟨j, hj, rfl⟩ := List.getElem_of_mem hb
    have hjl : j < rest.length := by
      have := hj; simp [colorsFrom_length] at this; exact this
    have := colorsFrom_proper rest (stepSym st s).1 ((s, (stepSym st s).2) :: done) s.1 hinv'
      (fun x hx => hs.1 x hx) hs.2 (s, (stepSym st s).2) (by simp) j hjl (by simpa using hov)
    simpa using this

/-- **overlapping line intervals never share a colour** — every list of intervals sorted by start (the order in which
    `assign_colors` processes them) -/
theorem colors_proper (l : List Iv) (hs : l.Pairwise (fun a b => a.1 ≤ b.1)) :
    (l.zip (assignColorsSorted l)).Pairwise (fun a b => b.1.1 < a.1.2 → a.2 ≠ b.2) :=
  colorsFrom_pairwise l St.init [] 0 inv_init (fun _ _ => Nat.zero_le _) hs

/-! ### scopes -/

theorem available_spec (parents : List Nat) (r : Nat) (h : r ∈ available parents) : r < 16 ∧ r ∉ parents := by
  unfold available at h
  rw [List.mem_filter] at h
  refine ⟨List.mem_range.mp h.1, ?_⟩
  intro hp
  have : parents.contains r = true := List.contains_iff_mem.mpr hp
  simp at h
  exact h.2 hp

theorem assignSyms_spec (avail : List Nat) : ∀ (l : List (String × Nat)) (m : List (String × Nat)) (u : List Nat) m' u',
    assignSyms avail l m u = some (m', u') →
    (∀ p ∈ m', p ∈ m ∨ (p.2 ∈ avail ∧ p.2 ∈ u')) ∧ (∀ r ∈ u, r ∈ u') := by
  intro l
  induction l with
  | nil =>
    intro m u m' u' h
    simp only [assignSyms] at h
    injection h with h; injection h with h1 h2; subst h1; subst h2
    exact ⟨fun p hp => Or.inl hp, fun r hr => hr⟩
  | cons x rest ih =>
    intro m u m' u' h
    obtain ⟨v, col⟩ := x
    simp only [assignSyms] at h
    cases hl : lookupL m v with
    | some r0 =>
      rw [hl] at h
      exact ih m u m' u' h
    | none =>
      rw [hl] at h
      cases ha : avail[col]? with
      | none => rw [ha] at h; cases h
      | some r =>
        rw [ha] at h
        simp only at h
        obtain ⟨h1, h2⟩ := ih _ _ m' u' h
        have hr_av : r ∈ avail := List.mem_of_getElem? ha
        have hr_u : r ∈ (if u.contains r then u else u ++ [r]) := by
          split
          · rename_i hc; exact List.contains_iff_mem.mp hc
          · simp
        refine ⟨?_, ?_⟩
        · intro p hp
          rcases h1 p hp with hm | hm
          · rcases List.mem_append.mp hm with hm | hm
            · exact Or.inl hm
            · simp at hm; subst hm; exact Or.inr ⟨hr_av, h2 r hr_u⟩
          · exact Or.inr hm
        · intro q hq
          apply h2
          split
          · exact hq
          · exact List.mem_append_left _ hq

/-- **what a scope assigns**: every new entry of the map is a register r0–r15 that none of the scope's callers has
    blocked, and it is part of the reported register set -/
theorem scope_registers_ok (st st' : AState) (sc : Scope) (h : stepScope st sc = .ok st') :
    ∀ p ∈ st'.mapping, p ∈ st.mapping ∨ (p.2 < 16 ∧ p.2 ∉ parentRegs st sc ∧ p.2 ∈ usedRegisters st') := by
  unfold stepScope at h
  simp only at h
  cases ha : assignSyms (available (parentRegs st sc)) ((sc.syms.map (·.1)).zip (assignColors (sc.syms.map (·.2)))) st.mapping [] with
  | none => rw [ha] at h; cases h
  | some res =>
    obtain ⟨mapping, used⟩ := res
    rw [ha] at h
    simp only at h
    injection h with h
    subst h
    intro p hp
    obtain ⟨h1, _⟩ := assignSyms_spec _ _ _ _ _ _ ha
    rcases h1 p hp with hm | ⟨hav, hu⟩
    · exact Or.inl hm
    · right
      obtain ⟨hlt, hnp⟩ := available_spec _ _ hav
      refine ⟨hlt, hnp, ?_⟩
      unfold usedRegisters
      rw [List.mem_filter]
      refine ⟨List.mem_range.mpr hlt, ?_⟩
      simp only [List.any_append, List.any_cons, List.any_nil, Bool.or_false, Bool.or_eq_true]
      right
      apply List.contains_iff_mem.mpr
      rw [List.mem_eraseDups]
      exact List.mem_append_left _ hu

/-- **more registers needed than available ⇒ the error, never a mapping** -/
theorem out_of_registers_is_error (st : AState) (sc : Scope) (v : String) (col : Nat) (rest : List (String × Nat))
    (hcols : (sc.syms.map (·.1)).zip (assignColors (sc.syms.map (·.2))) = (v, col) :: rest)
    (hnew : lookupL st.mapping v = none) (hfull : (available (parentRegs st sc)).length ≤ col) :
    stepScope st sc = .outOfRegisters := by
  unfold stepScope
  simp only [hcols, assignSyms, hnew]
  have : (available (parentRegs st sc))[col]? = none := List.getElem?_eq_none_iff.mpr hfull
  rw [this]

/-! non-vacuity -/
example : assignColorsSorted [(1, 5), (2, 3), (3, 6), (5, 9)] = [0, 1, 1, 0] := by decide
example : [(1, 5), (2, 3), (3, 6), (5, 9)].Pairwise (fun (a b : Iv) => a.1 ≤ b.1) := by decide

end PV.Props.C04
