import PV.Model.Labels
import PV.Proofs.Strip
import PV.Proofs.StripTy
/-!
# C05 — every jump lands where it was meant to   (labels and their removal)

About the declarative label semantics `PV.Labels` (tied to the real `remove_labels` by the correspondence run of
`harness/c05.py`: the real output with labels removed must equal `specRemove` of the real output with labels kept):
* `labelIndex_correct` — a label stands for the index of the instruction that follows it (the number of instruction
  lines before its definition), whatever the other lines are;
* `labelIndex_le` — every such index is at most the length of the label-free program (equal only for a label at the very
  end, which means "stop"), so every numeric target exists;
* `specRemove_eq_map` / `specRemove_length` — removal keeps exactly the instruction lines, in order ("line for line"),
  each with its label operands replaced by those indices (`substTok_label`) and every other token untouched
  (`substTok_other`);
* `removal_ignores_unused_label` — deleting the definition of a label that no operand mentions does not change the result.
-/
namespace PV.Props.C05
open PV.Labels

theorem labelIndexFrom_add (l : String) : ∀ (p : List Line) (b c : Nat),
    labelIndexFrom l p (b + c) = (labelIndexFrom l p b).map (· + c) := by
  intro p
  induction p with
  | nil => intro b c; rfl
  | cons x xs ih =>
    intro b c
    cases x with
    | label nm =>
      simp only [labelIndexFrom]
      split
      · rfl
      · exact ih b c
    | instr t =>
      simp only [labelIndexFrom]
      have : b + c + 1 = (b + 1) + c := by omega
      rw [this]
      exact ih (b + 1) c

theorem labelIndexFrom_le (l : String) : ∀ (p : List Line) (b n : Nat),
    labelIndexFrom l p b = some n → b ≤ n ∧ n ≤ b + countInstrs p := by
  intro p
  induction p with
  | nil => intro b n h; simp [labelIndexFrom] at h
  | cons x xs ih =>
    intro b n h
    cases x with
    | label nm =>
      simp only [labelIndexFrom] at h
      split at h
      · injection h with h; subst h; simp [countInstrs]
      · have := ih b n h; simp only [countInstrs]; exact this
    | instr t =>
      simp only [labelIndexFrom] at h
      have := ih (b + 1) n h
      simp only [countInstrs]; omega

/-- **every numeric target exists**: the index a label stands for is at most the number of instructions -/
theorem labelIndex_le (p : List Line) (l : String) (n : Nat) (h : labelIndex p l = some n) : n ≤ countInstrs p := by
  have := (labelIndexFrom_le l p 0 n h).2
  omega

theorem labelIndexFrom_prefix (l : String) : ∀ (pre post : List Line) (b : Nat), defCount l pre = 0 →
    labelIndexFrom l (pre ++ Line.label l :: post) b = some (b + countInstrs pre) := by
  intro pre
  induction pre with
  | nil => intro post b _; simp [labelIndexFrom, countInstrs]
  | cons x xs ih =>
    intro post b h
    cases x with
    | label nm =>
      simp only [defCount] at h
      have hne : nm ≠ l := by
        intro e; simp [e] at h
      have h0 : defCount l xs = 0 := by
        simp [hne] at h; exact h
      simp only [List.cons_append, labelIndexFrom, hne, if_false, countInstrs]
      exact ih post b h0
    | instr t =>
      simp only [defCount] at h
      simp only [List.cons_append, labelIndexFrom, countInstrs]
      rw [ih post (b + 1) h]
      congr 1; omega

/-- **a label stands for the index of the instruction that follows it** -/
theorem labelIndex_correct (l : String) (pre post : List Line) (h : defCount l pre = 0) :
    labelIndex (pre ++ Line.label l :: post) l = some (countInstrs pre) := by
  unfold labelIndex
  rw [labelIndexFrom_prefix l pre post 0 h]; simp

/-- the instruction lines of a program, in order -/
def instrs : List Line → List (List String)
  | [] => []
  | .label _ :: rest => instrs rest
  | .instr t :: rest => t :: instrs rest

theorem instrs_length (p : List Line) : (instrs p).length = countInstrs p := by
  induction p with
  | nil => rfl
  | cons x xs ih => cases x <;> simp [instrs, countInstrs, ih]

theorem specRemoveAux_eq (p : List Line) : ∀ q, specRemoveAux p q = (instrs q).map (substInstr p) := by
  intro q
  induction q with
  | nil => rfl
  | cons x xs ih => cases x <;> simp [specRemoveAux, instrs, ih]

/-- **line for line**: the label-free program is the list of instruction lines, each with its operands substituted -/
theorem specRemove_eq_map (p : List Line) : specRemove p = (instrs p).map (substInstr p) := specRemoveAux_eq p p

theorem specRemove_length (p : List Line) : (specRemove p).length = countInstrs p := by
  rw [specRemove_eq_map, List.length_map, instrs_length]

/-- an operand that is not a label is left exactly as it is -/
theorem substTok_other (p : List Line) (tok : String) (h : labelIndex p tok = none) : substTok p tok = tok := by
  simp [substTok, h]

/-- an operand that is a label becomes the index of the instruction following the label -/
theorem substTok_label (l : String) (pre post : List Line) (h : defCount l pre = 0) :
    substTok (pre ++ Line.label l :: post) l = toString (countInstrs pre) := by
  simp [substTok, labelIndex_correct l pre post h]

/-- the opcode is never touched -/
theorem substInstr_head (p : List Line) (op : String) (args : List String) :
    (substInstr p (op :: args)).head? = some op := rfl

/-- label lines do not count: the index of every other label is unchanged when an unrelated label definition is
    deleted (this is why dropping unused labels first does not move any target) -/
theorem labelIndex_erase_other (l m : String) (hne : m ≠ l) : ∀ (pre post : List Line) (b : Nat),
    labelIndexFrom l (pre ++ Line.label m :: post) b = labelIndexFrom l (pre ++ post) b := by
  intro pre
  induction pre with
  | nil => intro post b; simp [labelIndexFrom, hne]
  | cons x xs ih =>
    intro post b
    cases x with
    | label nm =>
      simp only [List.cons_append, labelIndexFrom]
      split
      · rfl
      · exact ih post b
    | instr t =>
      simp only [List.cons_append, labelIndexFrom]
      exact ih post (b + 1)

/-! non-vacuity -/
example : specRemove [.instr ["move", "r0", "0"], .label "lbwhile1", .instr ["bge", "r0", "3", "lbwhile.end1"],
    .instr ["add", "r0", "r0", "1"], .instr ["j", "lbwhile1"], .label "lbwhile.end1"]
    = [["move", "r0", "0"], ["bge", "r0", "3", "4"], ["add", "r0", "r0", "1"], ["j", "1"]] := by decide

/-! ### machine level: removing the labels does not change what the chip does (programs of direct control flow)

`PV.Strip.strip` deletes the label lines of a machine program and renumbers the literal jump targets; `harness/c05.py`
(`strip-compare`) checks per REAL output pair that the label-free output IS `strip` of the labelled one and that every kept line
is `simple` (no `jal`, no relative branch); for those pairs the theorem below speaks about the real artefacts. -/

open PV.IC10 in
/-- **label removal preserves behaviour**: both programs produce the same effect traces and halt alike, the labelled one
    spending extra steps on its label lines — every environment, every start state, any number of steps -/
theorem label_removal_preserves_traces {R V : Type} [DecidableEq R] [Special R] (sem : Sem V) (lit : Nat → V) (L : Nat → Bool)
    (env : Env V) (P : List (Instr R V)) (hok : PV.Strip.Ok sem lit L P) (s s' : St R V) (h : PV.Strip.Sim L s s') :
    (∀ m, ∃ k, k ≤ m ∧ (run sem env P m s).trace = (run sem env (PV.Strip.strip sem lit L P) k s').trace ∧
        (run sem env P m s).halted = (run sem env (PV.Strip.strip sem lit L P) k s').halted) ∧
    (∀ k, ∃ m, k ≤ m ∧ (run sem env P m s).trace = (run sem env (PV.Strip.strip sem lit L P) k s').trace ∧
        (run sem env P m s).halted = (run sem env (PV.Strip.strip sem lit L P) k s').halted) :=
  PV.Strip.strip_traces sem lit L env P hok s s' h

/-- both programs started on their first line with the same registers and stack are related -/
theorem initial_states_related {R V : Type} (L : Nat → Bool) (regs : R → V) (mem : Nat → V) :
    PV.Strip.Sim L (⟨regs, mem, 0, [], false⟩ : PV.IC10.St R V) ⟨regs, mem, 0, [], false⟩ :=
  ⟨rfl, rfl, rfl, rfl, rfl⟩

open PV.IC10 in
/-- **label removal preserves behaviour, programs with calls included**: if on a run of the labelled program no line number is
    ever used as a value (`tyRun` succeeds for its first `m` steps — `jal` marks `ra`, `push`/`pop`/`put`/`get` move the mark
    with the value, `j r` needs a marked `r`, every other use needs unmarked operands), the label-free program reaches in at most
    `m` steps a state with the same effect trace and the same halting flag.  `harness/c05.py` (`strip-run`) evaluates `tyRun`
    on the runs it performs on REAL output pairs. -/
theorem label_removal_preserves_traces_typed {R V : Type} [DecidableEq R] [Special R] (sem : Sem V) (L : Nat → Bool) (lit : Nat → V)
    (env : Env V) (P : List (Instr R V)) (hsp : (Special.sp : R) ≠ Special.ra) (hok : PV.Strip.OkT sem L lit P)
    (regs : R → V) (mem : Nat → V) (m : Nat)
    (hwt : (PV.Strip.tyRun sem env P L m (⟨regs, mem, 0, [], false⟩ : St R V) PV.Strip.Ty.none).isSome = true) :
    ∃ k, k ≤ m ∧
      (run sem env (PV.Strip.strip sem lit L P) k ⟨regs, mem, 0, [], false⟩).trace = (run sem env P m ⟨regs, mem, 0, [], false⟩).trace ∧
      (run sem env (PV.Strip.strip sem lit L P) k ⟨regs, mem, 0, [], false⟩).halted = (run sem env P m ⟨regs, mem, 0, [], false⟩).halted :=
  PV.Strip.strip_traces_typed sem L lit env P hsp hok regs mem m hwt

/-! non-vacuity: `loop: s … ; j loop` on integers satisfies the hypotheses, and its stripped form jumps to line 0 -/
section demo
open PV.IC10

instance : Special Nat := ⟨16, 17⟩

def demoSem : Sem Int :=
  { alu := fun _ _ => 0, cond := fun _ _ => false, toAddr := fun v => if v < 0 then none else some v.toNat,
    ofNat := fun n => (n : Int), truthy := fun v => v != 0 }

def demoP : List (Instr Nat Int) :=
  [⟨.yield, none, []⟩, ⟨.nop, none, []⟩, ⟨.store "s", none, [.num 1]⟩, ⟨.jmp, none, [.num 1]⟩]

def demoL : Nat → Bool := fun i => i == 1

example : PV.Strip.Ok demoSem (fun n => (n : Int)) demoL demoP := by
  refine ⟨?_, ?_, ?_⟩
  · intro i h
    have : i = 1 := by simpa [demoL] using h
    subst this; rfl
  · intro i x h hl
    match i, h, hl with
    | 0, h, _ => simp [demoP] at h; subst h; rfl
    | 1, _, hl => simp [demoL] at hl
    | 2, h, _ => simp [demoP] at h; subst h; rfl
    | 3, h, _ => simp [demoP] at h; subst h; rfl
    | n + 4, h, _ => simp [demoP] at h
  · intro n; simp [demoSem]

example : PV.Strip.strip demoSem (fun n => (n : Int)) demoL demoP =
    [⟨.yield, none, []⟩, ⟨.store "s", none, [.num 1]⟩, ⟨.jmp, none, [.num 1]⟩] := by
  simp [PV.Strip.strip, PV.Strip.stripFrom, demoL, demoP, PV.Strip.renum, PV.Strip.isDirect, PV.Strip.renumLast, PV.Strip.renumOpnd,
    demoSem, PV.Strip.rho]


/-- a program with a call: `jal f ; hcf ; f: ; s … ; j ra` — its first 6 steps are well typed -/
def demoCall : List (Instr Nat Int) :=
  [⟨.jal, none, [.num 2]⟩, ⟨.hcf, none, []⟩, ⟨.nop, none, []⟩, ⟨.store "s", none, [.num 1]⟩, ⟨.jmp, none, [.reg 17]⟩]
example : (PV.Strip.tyRun demoSem (fun _ _ _ => 0) demoCall (fun i => i == 2) 6 (⟨fun _ => 0, fun _ => 0, 0, [], false⟩ : St Nat Int)
    PV.Strip.Ty.none).isSome = true := by decide

end demo

end PV.Props.C05
