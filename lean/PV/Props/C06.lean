import PV.Model.RaInsert
import PV.IC10.Machine
import PV.Gen.Tables
import PV.Proofs.Leaf
import PV.Proofs.CoreComp
/-!
# C06 — calls return to their call site; arguments and results arrive intact   (partial)

* machine facts: `jal_sets_ra` (a call stores the line after the call in `ra`), `return_lands_on_ra` (`j ra` continues at
  the line held in `ra`), hence `call_return_roundtrip`: if `ra` holds at the return what the call stored, control resumes
  at the instruction after the call — at any nesting depth, which is why preserving `ra` across inner calls suffices;
* `push_pop_restores`: a `push ra` … `pop ra` pair with a balanced stack in between restores `ra` and `sp`;
* `addRaFixed_shape`: in the fixed-slot convention the model of `add_ra_instructions` puts `push ra` directly after the
  function label and `pop ra` directly after the function's end label (every exit path passes it), nothing else changes;
* `slots_distinct`: the argument slots `RV-1-i` and the result slot `RV` are pairwise different stack cells.
Whole-program call discipline of real outputs is monitored by the shadow call stack of the machine run (harness/c06.py).
-/
namespace PV.Props.C06
open PV.IC10 PV.RaInsert

/-! ### calls and returns on the machine -/
section machine
variable {R V : Type} [DecidableEq R] [Special R]

theorem jal_sets_ra (sem : Sem V) (env : Env V) (P : List (Instr R V)) (s : St R V) (i : Instr R V) (n : Nat)
    (hh : s.halted = false) (hi : P[s.pc]? = some i) (hk : i.kind = .jal) (hd : i.dst = none)
    (ht : sem.toAddr ((i.args.map (Opnd.eval s.regs)).headD (sem.ofNat 0)) = some n) :
    (step sem env P s).pc = n ∧ (step sem env P s).regs Special.ra = sem.ofNat (s.pc + 1) ∧
    (step sem env P s).trace = s.trace ∧ (step sem env P s).mem = s.mem := by
  have hstep : step sem env P s = applyOut s i.dst (exec sem env i.kind (i.args.map (Opnd.eval s.regs)) (s.regs Special.sp) s.pc s.mem s.trace) := by
    simp only [step, hh, hi, Bool.false_eq_true, if_false]
  rw [hstep, hk, hd]
  simp only [exec, target, ht, applyOut, writeBack, updOpt, upd]
  simp

theorem return_lands_on_ra (sem : Sem V) (env : Env V) (P : List (Instr R V)) (s : St R V) (i : Instr R V) (n : Nat)
    (hh : s.halted = false) (hi : P[s.pc]? = some i) (hk : i.kind = .jmp) (ha : i.args = [.reg Special.ra])
    (ht : sem.toAddr (s.regs Special.ra) = some n) :
    (step sem env P s).pc = n ∧ (step sem env P s).trace = s.trace ∧ (step sem env P s).mem = s.mem ∧
    (step sem env P s).regs Special.sp = s.regs Special.sp := by
  have hstep : step sem env P s = applyOut s i.dst (exec sem env i.kind (i.args.map (Opnd.eval s.regs)) (s.regs Special.sp) s.pc s.mem s.trace) := by
    simp only [step, hh, hi, Bool.false_eq_true, if_false]
  rw [hstep, hk, ha]
  simp only [List.map_cons, List.map_nil, Opnd.eval, List.headD_cons, exec, target, ht, applyOut, writeBack, updOpt]
  cases i.dst <;> simp

/-- **a return whose `ra` still holds what the call stored resumes right after the call** -/
theorem call_return_roundtrip (sem : Sem V) (env : Env V) (P : List (Instr R V)) (s t : St R V) (i j : Instr R V) (n : Nat)
    (hs : s.halted = false) (hi : P[s.pc]? = some i) (hik : i.kind = .jal) (hid : i.dst = none)
    (hit : sem.toAddr ((i.args.map (Opnd.eval s.regs)).headD (sem.ofNat 0)) = some n)
    (ht : t.halted = false) (hj : P[t.pc]? = some j) (hjk : j.kind = .jmp) (hja : j.args = [.reg Special.ra])
    (hpres : t.regs Special.ra = (step sem env P s).regs Special.ra)
    (hline : sem.toAddr (sem.ofNat (s.pc + 1)) = some (s.pc + 1)) :
    (step sem env P t).pc = s.pc + 1 := by
  have h1 := (jal_sets_ra sem env P s i n hs hi hik hid hit).2.1
  rw [h1] at hpres
  exact (return_lands_on_ra sem env P t j (s.pc + 1) ht hj hjk hja (by rw [hpres]; exact hline)).1

end machine

/-! ### the inserted bracket in the fixed-slot convention -/

theorem lastIdx_last {α : Type} (p : α → Bool) (pre post : List α) (e : α) (he : p e = true) (hpost : ∀ x ∈ post, p x = false) :
    lastIdx p (pre ++ e :: post) = some pre.length := by
  have hpostnone : lastIdx p post = none := by
    induction post with
    | nil => rfl
    | cons x xs ih =>
      have := ih (fun y hy => hpost y (by simp [hy]))
      simp [lastIdx, this, hpost x (by simp)]
  induction pre with
  | nil => simp [lastIdx, hpostnone, he]
  | cons x xs ih => simp [lastIdx, ih]

theorem insert_after_end (pre post : List Ins) (e x : Ins) :
    (pre ++ e :: post).insertIdx (pre.length + 1) x = pre ++ e :: x :: post := by
  induction pre with
  | nil => simp
  | cons y ys ih => simp [List.insertIdx_succ_cons, ih]

/-- **`push ra` directly after the function label, `pop ra` directly after the end label** — nothing else changes -/
theorem addRaFixed_shape (name : String) (lbl e : Ins) (pre post : List Ins)
    (hcalls : (lbl :: pre ++ e :: post).any isCall = true) (hrets : (lbl :: pre ++ e :: post).any isReturn = true)
    (he : isEndLabel name e = true) (hpost : ∀ x ∈ post, isEndLabel name x = false) :
    addRaFixed name (lbl :: pre ++ e :: post) = lbl :: pushRa :: pre ++ e :: popRa :: post := by
  unfold addRaFixed
  rw [hcalls, hrets]
  simp only [Bool.and_self, if_true]
  have hl : lastIdx (isEndLabel name) (lbl :: pre ++ e :: post) = some (pre.length + 1) := by
    have := lastIdx_last (isEndLabel name) (lbl :: pre) post e he hpost
    simpa using this
  rw [hl]
  simp only
  have h1 : (lbl :: pre ++ e :: post).insertIdx 1 pushRa = lbl :: pushRa :: (pre ++ e :: post) := by
    simp [List.insertIdx_succ_cons]
  rw [h1]
  have h2 := insert_after_end (lbl :: pushRa :: pre) post e popRa
  simp only [List.length_cons, List.cons_append] at h2
  have h3 : pre.length + 1 + 2 = pre.length + 1 + 1 + 1 := by omega
  rw [h3]
  exact h2

/-- a function that makes no call, or never returns, is left unchanged -/
theorem addRa_unchanged (name : String) (pp : Bool) (code : List Ins) (h : (code.any isCall && code.any isReturn) = false) :
    addRa name pp code = code := by
  unfold addRa addRaPushPop addRaFixed
  cases pp <;> simp [h]

/-! ### stack slots of the fixed-slot convention -/

/-- the result slot `RV` and the argument slots `RV-1-i` are pairwise different cells (parametric in the regenerated `RV`) -/
theorem slots_distinct (i j : Nat) (hi : i < PV.Gen.returnValueAddress) (hj : j < PV.Gen.returnValueAddress) :
    PV.Gen.returnValueAddress - 1 - i ≠ PV.Gen.returnValueAddress ∧
    (i ≠ j → PV.Gen.returnValueAddress - 1 - i ≠ PV.Gen.returnValueAddress - 1 - j) := by
  have : PV.Gen.returnValueAddress = 511 := by decide
  rw [this] at hi hj ⊢
  omega

theorem slots_in_stack : PV.Gen.returnValueAddress < PV.IC10.stackSize := by decide

/-! non-vacuity -/
example : addRaFixed "f" [⟨"f:", [], none⟩, ⟨"jal", ["g"], none⟩, ⟨"fend:", [], none⟩, ⟨"j", ["ra"], none⟩]
    = [⟨"f:", [], none⟩, pushRa, ⟨"jal", ["g"], none⟩, ⟨"fend:", [], none⟩, popRa, ⟨"j", ["ra"], none⟩] := by decide +kernel

/-! ### leaf functions (bodies without a call): the static check `PV.Leaf.checkLeaf`, run on every real function body by
`harness/c06.py` (`check-leaf`), implies that the body can only be left through `j ra` to the caller's return line -/

section leaf
open PV.IC10
variable {R V : Type} [DecidableEq R] [Special R]

/-- **a call to an accepted leaf body returns to the line after the call** (`PV.Leaf.call_leaf_returns`) -/
theorem leaf_call_returns_to_call_site (sem : Sem V) (env : Env V) (P : List (Instr R V)) (lo hi : Nat)
    (hsp : (Special.sp : R) ≠ Special.ra) (hck : PV.Leaf.checkLeaf sem P lo hi = true)
    (hof : ∀ n, sem.toAddr (sem.ofNat n) = some n) (hlo : lo < hi)
    (s : St R V) (c : Nat) (v : V) (d : Option R) (rest : List (Opnd R V)) (hh : s.halted = false) (hpc : s.pc = c)
    (hi' : P[c]? = some ⟨.jal, d, Opnd.num v :: rest⟩) (hv : sem.toAddr v = some lo) (hd : d ≠ some Special.ra) :
    ∀ n, (∀ k, k ≤ n → (run sem env P (k + 1) s).halted = true ∨ PV.Leaf.Inside lo hi (run sem env P (k + 1) s)) ∨
         (∃ k, k < n ∧ PV.Leaf.Inside lo hi (run sem env P (k + 1) s) ∧
                 run sem env P (k + 2) s = { run sem env P (k + 1) s with pc := c + 1 }) :=
  (PV.Leaf.call_leaf_returns sem env P lo hi hsp hck hof hlo s c v d rest hh hpc hi' hv hd).2.2

end leaf

/-! ### calls in the proved core language: the call of a procedure — which may itself call procedures of smaller rank, saving `ra` on the call
stack — comes back to the line after the `jal` at the same stack depth, having done exactly what the procedure body does (instance of `PV.Core.sim`; `harness/c01.py` ties `compProg (flatten src)` to the real
pre-allocation code of programs with leaf functions) -/

section corecall
open PV.IC10 PV.Core
variable {V : Type}

theorem core_call_returns (sem : Sem V) (lo : Nat) (env : Env V) (lit : Nat → V) (entry : Nat → Nat) (F : Nat → Stmt V) (P : List (Instr Reg V))
    (rk : Nat → Nat) (okP : Nat → Prop)
    (hlit : ∀ n, sem.toAddr (lit n) = some n) (hof : ∀ n, sem.toAddr (sem.ofNat n) = some n) (hlo : lo ≤ stackSize)
    (hok : ∀ k, okP k → ProcOk sem lo lit entry F P rk okP k) (k : Nat) (hk : okP k)
    (c : Nat) (hcode : P[c]? = some ⟨.jal, none, [.num (lit (entry k))]⟩)
    (fuel : Nat) (σ σ' : SSt V) (st : St Reg V) (d : Nat) (stk : List V) (hd : d + (rk k + 1) ≤ lo) (hat : At sem lo st σ c d stk)
    (h : exec sem env F fuel (.call k) σ = .done σ') :
    ∃ n, At sem lo (run sem env P n st) σ' (c + 1) d stk := by
  have hc : CodeAt P c (comp lit entry (.call k) c 0 0 0) := by
    intro i hi
    simp only [comp, List.length_singleton] at hi
    have : i = 0 := by omega
    subst this
    simpa [comp] using hcode
  obtain ⟨n, hn, _⟩ := (sim sem lo env lit entry F P rk okP hlit hof hlo hok fuel (.call k) (fun j => j = k) (rk k + 1)
    (fun j hj => by subst hj; exact ⟨hk, Nat.lt_succ_self _⟩) rfl c 0 0 0 σ st d stk hd hc hat).1 .norm σ' h
  exact ⟨n, by simpa [land, size] using hn⟩

end corecall

/-! non-vacuity: `jal 2 ; hcf ; s … ; j ra` — the body at lines 2..3 is accepted -/
section leafdemo
open PV.IC10
instance : Special Nat := ⟨16, 17⟩
def leafSem : Sem Int :=
  { alu := fun _ _ => 0, cond := fun _ _ => false, toAddr := fun v => if v < 0 then none else some v.toNat,
    ofNat := fun n => (n : Int), truthy := fun v => v != 0 }
def leafP : List (Instr Nat Int) :=
  [⟨.jal, none, [.num 2]⟩, ⟨.hcf, none, []⟩, ⟨.store "s", none, [.num 1]⟩, ⟨.jmp, none, [.reg 17]⟩]
example : PV.Leaf.checkLeaf leafSem leafP 2 4 = true := by decide
example : PV.Leaf.checkLeaf leafSem leafP 0 4 = false := by decide   -- a body with a call is not a leaf
end leafdemo

end PV.Props.C06
