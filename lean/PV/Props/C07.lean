import PV.Model.Regions
import PV.Proofs.Cfg
/-!
# C07 — when the top-level script finishes, nothing else runs

* `checkFall_sound` — if the static region check accepts an emitted program, then in every execution (any environment,
  any number of steps) a step that leaves its region is a `jal`/`j` to a function entry, a jump through a register (a
  return), runs off the end of the program, or is one of the explicitly allowed edges: function bodies are entered only
  through calls.
* `end_halts`, `halted_forever` — reaching the end of the program stops the chip, and a stopped chip performs no further
  effect: the trace never grows again.
The check is run on every real output; on the pinned tree the end of a terminating main script followed by a called
function is the one allowed edge (known finding F-C07-a, encoded in stored references).
-/
namespace PV.Props.C07
open PV.IC10 PV.Cfg PV.Regions
set_option linter.unusedSectionVars false

variable {R V : Type} [DecidableEq R] [Special R]

/-- **function bodies are entered only through calls** -/
theorem checkFall_sound (sem : Sem V) (env : Env V) (P : List (Instr R V)) (owner : Nat → Nat) (entries : List Nat)
    (allow : List (Nat × Nat)) (hc : checkFall sem P owner entries allow = true)
    (s : St R V) (i : Instr R V) (hh : s.halted = false) (hi : P[s.pc]? = some i) :
    succs sem s.pc i = none ∨                                        -- a jump through a register (return / jump table)
    (step sem env P s).halted = true ∨
    P.length ≤ (step sem env P s).pc ∨                                -- ran off the end
    owner (step sem env P s).pc = owner s.pc ∨                        -- stayed in its region
    (isCall i.kind = true ∧ (step sem env P s).pc ∈ entries) ∨        -- a call / tail call to a function entry
    (s.pc, (step sem env P s).pc) ∈ allow := by
  cases hs : succs sem s.pc i with
  | none => exact Or.inl rfl
  | some l =>
    right
    rcases step_pc_mem_succs sem env P s i l hh hi hs with h | hmem
    · exact Or.inl h
    · right
      unfold checkFall at hc
      rw [List.all_eq_true] at hc
      have hm : (i, s.pc) ∈ P.zipIdx := by
        rw [List.mem_zipIdx_iff_getElem?]; simpa using hi
      have := hc (i, s.pc) hm
      simp only [hs, List.all_eq_true] at this
      have he := this _ hmem
      unfold edgeOk at he
      simp only [Bool.or_eq_true, decide_eq_true_eq, beq_iff_eq, Bool.and_eq_true, List.contains_iff_mem] at he
      rcases he with ((h1 | h2) | h3) | h4
      · exact Or.inl h1
      · exact Or.inr (Or.inl h2)
      · exact Or.inr (Or.inr (Or.inl h3))
      · exact Or.inr (Or.inr (Or.inr h4))

/-- reaching the line after the last one stops the chip without any effect -/
theorem end_halts (sem : Sem V) (env : Env V) (P : List (Instr R V)) (s : St R V) (hh : s.halted = false)
    (hpc : P.length ≤ s.pc) : (step sem env P s).halted = true ∧ (step sem env P s).trace = s.trace := by
  have : P[s.pc]? = none := List.getElem?_eq_none_iff.mpr hpc
  simp [step, hh, this]

theorem step_halted (sem : Sem V) (env : Env V) (P : List (Instr R V)) (s : St R V) (hh : s.halted = true) :
    step sem env P s = s := by simp [step, hh]

/-- **a stopped chip performs no further effect and does not keep running** -/
theorem halted_forever (sem : Sem V) (env : Env V) (P : List (Instr R V)) (n : Nat) (s : St R V) (hh : s.halted = true) :
    run sem env P n s = s := by
  induction n with
  | zero => rfl
  | succ n ih => show run sem env P n (step sem env P s) = s; rw [step_halted sem env P s hh]; exact ih

/-- so: once the top-level script runs off the end, the trace is final -/
theorem after_end_nothing_runs (sem : Sem V) (env : Env V) (P : List (Instr R V)) (s : St R V) (hh : s.halted = false)
    (hpc : P.length ≤ s.pc) (n : Nat) : (run sem env P (n + 1) s).trace = s.trace ∧ (run sem env P (n + 1) s).halted = true := by
  obtain ⟨h1, h2⟩ := end_halts sem env P s hh hpc
  show (run sem env P n (step sem env P s)).trace = s.trace ∧ (run sem env P n (step sem env P s)).halted = true
  rw [halted_forever sem env P n _ h1]
  exact ⟨h2, h1⟩

end PV.Props.C07
