import PV.Model.Tokens
import PV.Proofs.Digits
/-!
# C08 — compact output means the same as verbose output

`spell hs (render mode t)` is what the transpiler prints for a symbolic operand `t` in output mode `mode`;
`denote` is what the IC10 loader reads.  For every string, every integer and every enum member the compact
spelling denotes what the verbose spelling denotes, and a number replaces a symbolic token only if it is
exactly its value.
-/
namespace PV.Props.C08
open PV PV.Digits PV.Tokens

/-! ### numerals -/

/-- an integer operand, however `format_int` spells it, reads back as itself -/
theorem int_denotes (T : EnumTable) (pos : Option String) (hs : List Int) (n : Int) :
    denote T pos (spell hs (.int n)) = some n := by
  simp only [spell, denote, formatInt_roundtrip]

/-! ### reading `HASH("…")` / `STR("…")` -/

theorem fold_none (b : Nat) (cs : List Char) : cs.foldl (readStep b) none = none := by
  induction cs with
  | nil => rfl
  | cons c cs ih => simpa [readStep] using ih

/-- a token whose first character is not a decimal digit, `$` or `-` is not a numeral -/
theorem parseNum_none_of_head (c : Char) (rest : List Char) (h1 : c ≠ '$') (h2 : c ≠ '-')
    (h3 : ∀ d, charDigit c = some d → ¬ d < 10) : parseNum (c :: rest) = none := by
  unfold parseNum
  split
  · rename_i heq; injection heq with h _; exact absurd h h1
  · rename_i heq; injection heq with h _; exact absurd h h2
  · simp only [strToNat, List.isEmpty_cons, Bool.false_eq_true, if_false, List.foldl_cons, readStep]
    cases hc : charDigit c with
    | none => simp only; rw [fold_none 10 rest]; rfl
    | some d => simp only [h3 d hc, if_false]; rw [fold_none 10 rest]; rfl

theorem quoted_wrap (pre s : List Char) : quoted pre (pre ++ ['(', '"'] ++ s ++ ['"', ')']) = some s := by
  unfold quoted
  have hp : (pre ++ ['(', '"']).isPrefixOf (pre ++ ['(', '"'] ++ s ++ ['"', ')']) = true := by
    rw [List.isPrefixOf_iff_prefix, List.append_assoc (pre ++ ['(', '"'])]
    exact List.prefix_append _ _
  have hsuf : (['"', ')'] : List Char).isSuffixOf (pre ++ ['(', '"'] ++ s ++ ['"', ')']) = true := by
    rw [List.isSuffixOf_iff_suffix]
    exact List.suffix_append _ _
  simp only [hp, hsuf, true_and]
  have hlen : (pre ++ ['(', '"']).length + 2 ≤ (pre ++ ['(', '"'] ++ s ++ ['"', ')']).length := by
    simp only [List.length_append, List.length_cons, List.length_nil]; omega
  simp only [hlen, if_true]
  congr 1
  rw [List.append_assoc (pre ++ ['(', '"']), List.drop_left]
  have : (pre ++ ['(', '"'] ++ (s ++ ['"', ')'])).length - (pre ++ ['(', '"']).length - 2 = s.length := by
    simp only [List.length_append, List.length_cons, List.length_nil]; omega
  rw [this, List.take_left]

theorem hashText_eq (s : List Char) : hashText s = "HASH".toList ++ ['(', '"'] ++ s ++ ['"', ')'] := by
  simp [hashText]
theorem strText_eq (s : List Char) : strText s = "STR".toList ++ ['(', '"'] ++ s ++ ['"', ')'] := by
  simp [strText]

/-- `HASH("s")` denotes the signed CRC-32 of `s` — for every string `s` -/
theorem hash_text_denotes (T : EnumTable) (pos : Option String) (s : List Char) :
    denote T pos (hashText s) = some (hashOf s) := by
  have hnum : parseNum (hashText s) = none := by
    have : hashText s = 'H' :: ("ASH(\"".toList ++ s ++ "\")".toList) := by simp [hashText]
    rw [this]
    have hH : charDigit 'H' = none := by decide
    exact parseNum_none_of_head 'H' _ (by decide) (by decide) (by intro d hd; rw [hH] at hd; cases hd)
  unfold denote
  rw [hnum]
  simp only
  rw [hashText_eq, quoted_wrap]

/-- `STR("s")` denotes the big-endian packing of the character codes of `s` -/
theorem str_text_denotes (T : EnumTable) (pos : Option String) (s : List Char) :
    denote T pos (strText s) = some (Int.ofNat (strPack s)) := by
  have hnum : parseNum (strText s) = none := by
    have : strText s = 'S' :: ("TR(\"".toList ++ s ++ "\")".toList) := by simp [strText]
    rw [this]
    have hS : charDigit 'S' = none := by decide
    exact parseNum_none_of_head 'S' _ (by decide) (by decide) (by intro d hd; rw [hS] at hd; cases hd)
  have hq : quoted "HASH".toList (strText s) = none := by
    unfold quoted
    have : ("HASH".toList ++ ['(', '"']).isPrefixOf (strText s) = false := by simp [strText, List.isPrefixOf]
    rw [if_neg]
    intro hh
    rw [this] at hh
    exact absurd hh.1 (by decide)
  unfold denote
  rw [hnum]
  simp only
  rw [hq]
  simp only
  rw [strText_eq, quoted_wrap]

/-- the value `compute_string` computes is the byte packing when every character is a byte (Latin-1);
    beyond that the shift-or overlaps neighbouring bytes (known finding F-C08-a) -/
theorem computeString_eq_pack (s : List Char) (h : ∀ c ∈ s, c.toNat < 256) : computeStringVal s = strPack s := by
  unfold computeStringVal strPack
  have : ∀ (l : List Char) (a : Nat), (∀ c ∈ l, c.toNat < 256) →
      l.foldl (fun acc c => (acc <<< 8) ||| c.toNat) a = l.foldl (fun acc c => acc * 256 + c.toNat) a := by
    intro l
    induction l with
    | nil => intro a _; rfl
    | cons c l ih =>
      intro a hl
      simp only [List.foldl_cons]
      have hc : c.toNat < 2 ^ 8 := by have := hl c (by simp); omega
      rw [← Nat.shiftLeft_add_eq_or_of_lt hc a, Nat.shiftLeft_eq]
      exact ih _ (fun x hx => hl x (by simp [hx]))
  exact this s 0 h

/-! ### the property -/

/-- **HASH**: compact and verbose spellings denote the same number, the signed CRC-32 — all strings -/
theorem hash_compact_denotes_verbose (T : EnumTable) (pos : Option String) (hs : List Int) (s : List Char) (m : Mode) :
    denote T pos (spell hs (computeHash m s)) = some (hashOf s) := by
  unfold computeHash applyOutputMode
  cases m with
  | verbose => exact hash_text_denotes T pos s
  | numeric => exact int_denotes T pos hs _
  | compact =>
    simp only
    split
    · exact int_denotes T pos hs _
    · exact hash_text_denotes T pos s

/-- **STR**: compact and verbose spellings denote the same number, for strings of byte-sized characters -/
theorem str_compact_denotes_verbose (T : EnumTable) (pos : Option String) (hs : List Int) (s : List Char) (m : Mode)
    (hb : ∀ c ∈ s, c.toNat < 256) :
    denote T pos (spell hs (computeString m s)) = some (Int.ofNat (strPack s)) := by
  unfold computeString applyOutputMode
  cases m with
  | verbose => exact str_text_denotes T pos s
  | numeric => rw [int_denotes, computeString_eq_pack s hb]
  | compact =>
    simp only
    split
    · rw [int_denotes, computeString_eq_pack s hb]
    · exact str_text_denotes T pos s

/-- a member name as the tables have them: not a numeral, not a quoted form, no dot -/
def PlainName (m : List Char) : Prop :=
  parseNum m = none ∧ quoted "HASH".toList m = none ∧ quoted "STR".toList m = none ∧ splitDot m = none

instance (m : List Char) : Decidable (PlainName m) := by unfold PlainName; exact inferInstance

/-- **enum members printed bare** (LogicType, LogicBatchMethod, LogicSlotType): name in an operand position of
    that enum class and number denote the same member -/
theorem enum_bare_compact_denotes_verbose (T : EnumTable) (hs : List Int) (ty m : List Char) (v : Int) (mode : Mode)
    (hbare : bareEnums.contains (String.ofList ty) = true) (hname : PlainName m)
    (hlook : enumLookup T (String.ofList ty) (String.ofList m) = some v) :
    denote T (some (String.ofList ty)) (spell hs (formatEnum mode ty m v)) = some v := by
  cases mode with
  | verbose =>
    simp only [formatEnum, hbare, if_true, spell]
    obtain ⟨h1, h2, h3, h4⟩ := hname
    simp only [denote, h1, h2, h3, h4, hlook]
  | compact => simp only [formatEnum]; exact int_denotes T _ hs v
  | numeric => simp only [formatEnum]; exact int_denotes T _ hs v

/-- the qualified spelling `Class.member` splits at its dot -/
def QualOK (ty m : List Char) : Prop :=
  parseNum (ty ++ ['.'] ++ m) = none ∧ quoted "HASH".toList (ty ++ ['.'] ++ m) = none ∧
  quoted "STR".toList (ty ++ ['.'] ++ m) = none ∧ splitDot (ty ++ ['.'] ++ m) = some (ty, m)

instance (ty m : List Char) : Decidable (QualOK ty m) := by unfold QualOK; exact inferInstance

/-- **other enum members** are printed `Class.member`; name and number denote the same member at any position -/
theorem enum_qualified_compact_denotes_verbose (T : EnumTable) (pos : Option String) (hs : List Int) (ty m : List Char) (v : Int)
    (mode : Mode) (hq : bareEnums.contains (String.ofList ty) = false) (hname : QualOK ty m)
    (hlook : enumLookup T (String.ofList ty) (String.ofList m) = some v) :
    denote T pos (spell hs (formatEnum mode ty m v)) = some v := by
  cases mode with
  | verbose =>
    simp only [formatEnum, hq, Bool.false_eq_true, if_false, spell]
    obtain ⟨h1, h2, h3, h4⟩ := hname
    simp only [denote, h1, h2, h3, h4, hlook]
  | compact => simp only [formatEnum]; exact int_denotes T _ hs v
  | numeric => simp only [formatEnum]; exact int_denotes T _ hs v

/-- **a symbolic token is replaced by a number only if that number is exactly its value** -/
theorem numeric_only_if_exact (T : EnumTable) (pos : Option String) (text : List Char) (num : Int) (mode : Mode) (n : Int)
    (h : applyOutputMode num text mode = .int n) : n = num := by
  cases mode <;> simp only [applyOutputMode] at h
  · cases h
  · split at h
    · injection h with h; exact h.symm
    · cases h
  · injection h with h; exact h.symm

/-! ### non-vacuity -/
example : PlainName "Setting".toList := by decide
example : QualOK "SlotClass".toList "Helmet".toList := by decide
example : denote [("LogicType", [("Setting", 12)])] (some "LogicType") "Setting".toList = some 12 := by decide +kernel
example : hashOf "ab".toList = -1635563411 := by decide +kernel
example : spell [] (computeHash .compact "StructureActiveVent".toList) = "-1129453144".toList := by decide +kernel
example : spell [] (computeHash .compact "ab".toList) = "HASH(\"ab\")".toList := by decide +kernel
example : denote [] none "$9E83486D".toList = some 2659403885 := by decide +kernel
example : computeStringVal "AB".toList = 16706 ∧ strPack "AB".toList = 16706 := by decide

end PV.Props.C08
