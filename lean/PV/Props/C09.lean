import PV.Model.Version
import PV.Proofs.Digits
import PV.IC10.Parse
/-!
# C09 — emitted text is loadable IC10   (partial: numerals and version note proved; grammar by the loader model)

* `formatInt_roundtrip` — every integer literal the transpiler prints (decimal or `$HEX`) reads back as itself;
* `version_note_*` — the version note changes at most one line, only by appending the note, and that line stays
  within 90 characters; appended after a line without an open quote it is a trailing comment: the tokens are unchanged;
* the grammar itself (existing opcode, operand count and kinds, register and device spellings, no placeholders) is the
  hand-written loader model `PV.IC10.Parse` / `PV.IC10.Spec`, run on every real output by the harness.
-/
namespace PV.Props.C09
open PV.Version PV.Digits PV.IC10.Parse

theorem formatInt_roundtrip (hashes : List Int) (n : Int) : parseNum (formatInt hashes n) = some n :=
  PV.Digits.formatInt_roundtrip hashes n

/-- the result has as many lines as the input -/
theorem version_note_length (note : List Char) (ls : List (List Char)) : (addVersion note ls).length = ls.length := by
  induction ls with
  | nil => rfl
  | cons l ls ih => simp only [addVersion]; split <;> simp [ih]

/-- every line of the result is the original line, or the original line (short enough) with the note appended -/
theorem version_note_lines (note : List Char) (ls : List (List Char)) (i : Nat) (h : i < ls.length) :
    (addVersion note ls)[i]'(by rw [version_note_length]; exact h) = ls[i] ∨
    ((addVersion note ls)[i]'(by rw [version_note_length]; exact h) = ls[i] ++ note ∧ (ls[i] ++ note).length < 89) := by
  induction ls generalizing i with
  | nil => simp at h
  | cons l ls ih =>
    simp only [addVersion]
    split
    · rename_i hlt
      cases i with
      | zero => right; simp [hlt]
      | succ k => left; simp
    · cases i with
      | zero => left; simp
      | succ k =>
        have hk : k < ls.length := by simpa using h
        simpa using ih k hk

/-- **the note keeps its line within 90 characters**: a line of the result is longer than 90 only if the original was -/
theorem version_note_fits (note : List Char) (ls : List (List Char)) (i : Nat) (h : i < ls.length) :
    ((addVersion note ls)[i]'(by rw [version_note_length]; exact h)).length ≤ 90 ∨
    (addVersion note ls)[i]'(by rw [version_note_length]; exact h) = ls[i] := by
  rcases version_note_lines note ls i h with h1 | ⟨h1, h2⟩
  · right; exact h1
  · left; rw [h1]; omega

/-- at most one line is changed -/
theorem version_note_once (note : List Char) (ls : List (List Char)) :
    addVersion note ls = ls ∨ ∃ pre l post, ls = pre ++ l :: post ∧ addVersion note ls = pre ++ (l ++ note) :: post := by
  induction ls with
  | nil => left; rfl
  | cons l ls ih =>
    simp only [addVersion]
    split
    · right; exact ⟨[], l, ls, rfl, rfl⟩
    · rcases ih with h | ⟨pre, x, post, h1, h2⟩
      · left; rw [h]
      · right; exact ⟨l :: pre, x, post, by rw [h1]; rfl, by rw [h2]; rfl⟩

/-- scanning a line that contains no `#` leaves it unchanged and tracks the quote state -/
theorem stripComment_no_hash (l : List Char) (inq : Bool) (h : ∀ c ∈ l, c ≠ '#') (tail : List Char) :
    stripComment (l ++ tail) inq = l ++ stripComment tail (l.foldl (fun q c => if c = '"' then !q else q) inq) := by
  induction l generalizing inq with
  | nil => rfl
  | cons c l ih =>
    have hc : c ≠ '#' := h c (by simp)
    have hl : ∀ x ∈ l, x ≠ '#' := fun x hx => h x (by simp [hx])
    simp only [List.cons_append, stripComment, List.foldl_cons]
    by_cases hq : c = '"'
    · simp only [hq, if_true]
      rw [ih (!inq) hl]
    · simp only [hq, if_false]
      have : (c = '#' && !inq) = false := by simp [hc]
      simp only [this, Bool.false_eq_true, if_false]
      rw [ih inq hl]

/-- **the version note is a trailing comment**: appended to a comment-free line with balanced quotes, the loader's
    view of the line (comment stripped) is the line followed by the blanks before the `#` -/
theorem version_note_is_comment (l blanks note : List Char) (h : ∀ c ∈ l, c ≠ '#')
    (hbal : l.foldl (fun q c => if c = '"' then !q else q) false = false)
    (hb : ∀ c ∈ blanks, c = ' ') :
    stripComment (l ++ blanks ++ '#' :: note) false = l ++ blanks := by
  rw [List.append_assoc, stripComment_no_hash l false h, hbal]
  have hb2 : ∀ c ∈ blanks, c ≠ '#' := by
    intro c hc; rw [hb c hc]; decide
  rw [stripComment_no_hash blanks false hb2]
  have : blanks.foldl (fun q c => if c = '"' then !q else q) false = false := by
    clear hb2
    induction blanks with
    | nil => rfl
    | cons c cs ih =>
      have hc : c = ' ' := hb c (by simp)
      simp only [List.foldl_cons, hc]
      have : ((' ' : Char) = '"') = False := by decide
      simp only [this, if_false]
      exact ih (fun x hx => hb x (by simp [hx]))
  rw [this]
  simp [stripComment]

/-! non-vacuity -/
example : addVersion " # v1".toList ["a".toList, "b".toList] = ["a # v1".toList, "b".toList] := by decide
example : parseNum (formatInt [] 65536) = some 65536 ∧ formatInt [] 65536 = "$10000".toList := by decide +kernel

end PV.Props.C09
