import PV.Model.Verdict
import PV.Model.Pragma
/-!
# C10 — compile_code always returns a verdict, promptly, and cleans up   (partial)

* `verdict_total` — whatever the passes do (return, CompilerError, syntax error, any other exception) the shell of
  `compile_code` produces a dictionary with exactly one of `code` / `error`, and an error carries a non-empty description;
* `prelude_total` — the option prelude (directive scan) is a total function of the text: it cannot raise (C15's model);
* `no_child_left` — in every path of a constexpr evaluation (the child finishes with any status, prints garbage, or never
  finishes) the helper interpreter is gone — reaped or killed and reaped — when the evaluation returns or raises.
That CPython executes the passes in bounded time cannot be a Lean theorem: promptness, and the absence of helper processes
after the call, are observed by the harness on a malformed-input stream (every prefix of shipped programs, byte-level
mutations, hostile constexpr bodies).
-/
namespace PV.Props.C10
open PV.Verdict

/-- **always a verdict**: `code` or `error` (never both, never neither), errors described -/
theorem verdict_total {R : Type} (o : Outcome R) :
    (∃ r, verdict o = .code r) ∨ (∃ d l s, verdict o = .error d l s ∧ d ≠ "") := by
  cases o with
  | returns r => exact Or.inl ⟨r, rfl⟩
  | compilerError msg line =>
    refine Or.inr ⟨_, line, none, rfl, ?_⟩
    intro h
    have : ("Compiler error: " ++ msg).length = 0 := by rw [h]; rfl
    simp [String.length_append] at this
  | syntaxError msg line =>
    refine Or.inr ⟨_, line, none, rfl, ?_⟩
    intro h
    have : ("Syntax error: " ++ msg).length = 0 := by rw [h]; rfl
    simp [String.length_append] at this
  | otherException msg tr =>
    refine Or.inr ⟨_, none, some tr, rfl, ?_⟩
    intro h
    have : ("Internal compiler error: " ++ msg).length = 0 := by rw [h]; rfl
    simp [String.length_append] at this

/-- only a normal return of the passes yields `code` -/
theorem code_only_on_return {R : Type} (o : Outcome R) (r : R) (h : verdict o = .code r) : o = .returns r := by
  cases o <;> simp [verdict] at h
  · rw [h]

/-- **the option prelude cannot fail**: the directive scan is a total function, defined for every text and options -/
theorem prelude_total (src : List Char) (o : PV.Pragma.Opts) : ∃ o', PV.Pragma.scan src o = o' := ⟨_, rfl⟩

/-- **no helper process is left**: whatever the child does -/
theorem no_child_left (fate : Fate) (jsonOk : Bool) : (evalChild fate jsonOk).1.gone = true := by
  cases fate with
  | timesOut => rfl
  | finishes rc =>
    unfold evalChild
    by_cases h : (rc != 0) = true
    · simp [h, Child.gone]
    · simp only [h, Bool.false_eq_true, if_false]
      cases jsonOk <;> rfl

/-- a child that never finishes is reported as a timeout error (not a value, not a hang of the caller) -/
theorem runaway_is_error (jsonOk : Bool) : (evalChild .timesOut jsonOk).2 = .errorTimeout := rfl

end PV.Props.C10
