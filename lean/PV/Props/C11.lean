import PV.Model.Process
/-!
# C11 — a compilation's result does not depend on what was compiled before

Over the process model `PV.Process` (cells: output mode, constexpr memo, prefab hash set; the passes uninterpreted):
* `step_result_fresh` — in any process state that satisfies the invariant (the memo only holds values a fresh evaluation
  would give; the hash set, once filled, is the constant), a request gives exactly the result it gives in a fresh process;
* `step_inv` — the invariant is kept by every request;
* `history_independent` — for every sequence of requests served by one process, the i-th result is the result of the i-th
  request in a fresh process: order, repetition and interleaving with other options do not matter;
* `mode_is_set_from_options` — the output mode a compilation runs under is determined by its own (scanned) options.
The model is tied to the code by the global-state census of `harness/c11.py` (the only module-level cells that change
across calls are the three modelled ones) and by comparing histories with fresh-process results.
-/
namespace PV.Props.C11
open PV.Process

variable {S : Sys}

/-- the memo only holds what a fresh evaluation would give; the hash set, once filled, is the constant -/
structure Inv (g : G S) : Prop where
  memo : ∀ p ∈ g.cache, p.2 = S.pyEval p.1
  hashes : ∀ h, g.hashes = some h → h = S.allHashes

theorem inv_fresh (m : Bool) : Inv (G.fresh S m) :=
  ⟨by intro p hp; simp [G.fresh] at hp, by intro h hh; simp [G.fresh] at hh⟩

theorem lookup_sound (cache : List (S.Key × S.Val)) (k : S.Key) (v : S.Val)
    (hc : ∀ p ∈ cache, p.2 = S.pyEval p.1) (h : lookup cache k = some v) : v = S.pyEval k := by
  unfold lookup at h
  cases hf : cache.find? (fun p => p.1 == k) with
  | none => rw [hf] at h; cases h
  | some p =>
    rw [hf] at h
    simp only [Option.map_some, Option.some.injEq] at h
    have hm := List.mem_of_find?_eq_some hf
    have hk : p.1 = k := by
      have := List.find?_some hf
      simpa using this
    rw [← h, hc p hm, hk]

/-- under the invariant the memoised evaluator IS the fresh evaluator -/
theorem evalM_eq (g : G S) (hi : Inv g) : evalM g = S.pyEval := by
  funext k
  unfold evalM
  cases h : lookup g.cache k with
  | none => rfl
  | some v => exact lookup_sound g.cache k v hi.memo h

theorem hashes_eq (g : G S) (hi : Inv g) : g.hashes.getD S.allHashes = S.allHashes := by
  cases h : g.hashes with
  | none => rfl
  | some x => simp [hi.hashes x h]

/-- **same result as in a fresh process**, whatever was compiled before -/
theorem step_result_fresh (g : G S) (hi : Inv g) (req : S.Src × S.Opts) : (step g req).2 = freshResult S req := by
  unfold freshResult step
  simp only
  rw [evalM_eq g hi, hashes_eq g hi, evalM_eq (G.fresh S false) (inv_fresh false), hashes_eq (G.fresh S false) (inv_fresh false)]

/-- the invariant is kept -/
theorem step_inv (g : G S) (hi : Inv g) (req : S.Src × S.Opts) : Inv (step g req).1 := by
  unfold step
  simp only
  refine ⟨?_, ?_⟩
  · intro p hp
    rcases List.mem_append.mp hp with h | h
    · exact hi.memo p h
    · obtain ⟨k, _, rfl⟩ := List.mem_map.mp h
      rfl
  · intro h hh
    simp only [Option.some.injEq] at hh
    rw [← hh]
    exact hashes_eq g hi

theorem runAll_fresh (reqs : List (S.Src × S.Opts)) : ∀ (g : G S), Inv g → (runAll g reqs).2 = reqs.map (freshResult S) := by
  induction reqs with
  | nil => intro g _; rfl
  | cons r rest ih =>
    intro g hi
    simp only [runAll, List.map_cons]
    rw [step_result_fresh g hi r, ih (step g r).1 (step_inv g hi r)]

/-- **history independence**: every result of a long-lived process equals the fresh-process result of its request -/
theorem history_independent (reqs : List (S.Src × S.Opts)) (m : Bool) :
    (runAll (G.fresh S m) reqs).2 = reqs.map (freshResult S) :=
  runAll_fresh reqs (G.fresh S m) (inv_fresh m)

/-- the mode a compilation runs under comes from its own options, not from the previous call -/
theorem mode_is_set_from_options (g : G S) (req : S.Src × S.Opts) : (step g req).1.mode = S.compact (S.scan req.1 req.2) := rfl

/-! non-vacuity: a tiny system where the passes DO consult mode, evaluator and hashes -/
@[reducible] def demo : Sys :=
  { Src := Nat, Opts := Bool, Res := Nat × Bool × Nat, Key := Nat, Val := Nat,
    scan := fun _ o => o, compact := fun o => o,
    core := fun s _ mode ev hs => ((ev s, mode, hs.length), [s, s + 1]),
    pyEval := fun k => k * 7, allHashes := [1, 2, 3] }

example : (runAll (G.fresh demo true) [((2 : Nat), false), ((3 : Nat), true), ((2 : Nat), false)]).2
    = [((14 : Nat), false, (3 : Nat)), ((21 : Nat), true, (3 : Nat)), ((14 : Nat), false, (3 : Nat))] := by decide

end PV.Props.C11
