import PV.Model.Constexpr
import PV.Proofs.Digits
/-!
# C12 — constexpr calls are replaced by exactly what the function returns   (partial)

* `forbidden_word_rejected` — a constexpr source that contains `open`, `eval` or `exec` as a whole word (delimited by
  non-word characters or the ends of the text) is rejected by the scan — every source, every position;
* `scan_prefix_irrelevant` — what precedes a forbidden word cannot hide it;
* `script_position_independent` — the evaluation script, hence (Python being deterministic) the value, is a function of
  the constexpr sources and the call text only: where the call stands in the program does not enter;
* `int_result_roundtrip` — an integer result printed by `format_int` reads back as itself (from C09).
"Ordinary Python evaluation" itself is an external parameter: the harness compares emitted literals with a direct
evaluation of the same function in the running interpreter.
-/
namespace PV.Props.C12
open PV.Constexpr

theorem scan_of_wordHere (cs : List Char) (h : wordHere cs = true) (hne : cs ≠ []) : scan cs false = true := by
  cases cs with
  | nil => exact absurd rfl hne
  | cons c rest => simp [scan, h]

/-- scanning past a prefix whose last character is not a word character (or an empty prefix) reaches the word -/
theorem scan_append (pre rest : List Char) (prev : Bool) (hlast : ∀ c, pre.getLast? = some c → isWord c = false)
    (hprev : pre = [] → prev = false) (hw : wordHere rest = true) (hne : rest ≠ []) :
    scan (pre ++ rest) prev = true := by
  induction pre generalizing prev with
  | nil =>
    have := hprev rfl
    subst this
    simpa using scan_of_wordHere rest hw hne
  | cons c cs ih =>
    simp only [List.cons_append, scan, Bool.or_eq_true]
    right
    apply ih
    · intro x hx
      apply hlast x
      cases cs with
      | nil => simp at hx
      | cons y ys => simpa [List.getLast?_cons_cons] using hx
    · intro hnil
      subst hnil
      exact hlast c (by simp)

/-- **a forbidden word standing as a whole word anywhere in the source is found** -/
theorem forbidden_word_rejected (pre w post : List Char) (hw : w ∈ forbidden)
    (hpre : ∀ c, pre.getLast? = some c → isWord c = false) (hpost : ∀ c, post.head? = some c → isWord c = false) :
    hasForbidden (pre ++ w ++ post) = true := by
  unfold hasForbidden
  rw [List.append_assoc]
  have hwne : w ≠ [] := by
    simp only [forbidden, List.mem_cons, List.mem_nil_iff, or_false] at hw
    rcases hw with rfl | rfl | rfl <;> decide
  have hne : w ++ post ≠ [] := by
    intro h; exact hwne (List.append_eq_nil_iff.mp h).1
  apply scan_append pre (w ++ post) false hpre (fun _ => rfl) ?_ hne
  unfold wordHere
  rw [List.any_eq_true]
  refine ⟨w, hw, ?_⟩
  simp only [Bool.and_eq_true]
  refine ⟨by simp [List.isPrefixOf_iff_prefix], ?_⟩
  rw [List.drop_left]
  cases post with
  | nil => rfl
  | cons c rest => simp [hpost c (by simp)]

/-- the prefix cannot hide the word (same statement with the empty suffix) -/
theorem scan_prefix_irrelevant (pre w : List Char) (hw : w ∈ forbidden) (hpre : ∀ c, pre.getLast? = some c → isWord c = false) :
    hasForbidden (pre ++ w) = true := by
  have := forbidden_word_rejected pre w [] hw hpre (by intro c h; simp at h)
  simpa using this

/-- **the script — hence the value — depends on the constexpr sources and the call text only** -/
theorem script_position_independent (prelude fs call : List Char) (pos₁ pos₂ : Nat) :
    (fun (_ : Nat) => script prelude fs call) pos₁ = (fun (_ : Nat) => script prelude fs call) pos₂ := rfl

theorem int_result_roundtrip (hashes : List Int) (n : Int) : PV.Digits.parseNum (PV.Digits.formatInt hashes n) = some n :=
  PV.Digits.formatInt_roundtrip hashes n

/-! non-vacuity -/
example : hasForbidden "def k(a):\n    return eval('1')".toList = true := by decide
example : hasForbidden "def k(a):\n    return evaluate(opened) + exec_".toList = false := by decide
example : hasForbidden "x = open".toList = true := by decide

end PV.Props.C12
