import PV.Model.Modules
/-!
# C13 — library modules behave like the same code written in the main file   (partial)

* `module_head` / `scope_keys_disjoint` — the symbol-table keys of two different library modules never coincide, whatever
  the variable and function names are: equal names in different modules never share storage;
* `name_is_not_main_in_library` — inside a library module `__name__` folds to the module's name, so
  `__name__ == "__main__"` is false there and the block is pruned;
* `mangle_injective_partial` — function labels are injective on names without underscores (with underscores they are not:
  known finding F-C05-b).
The behavioural statement (split program = single-file program with prefixed names) is explored on the real transpiler by
compiling both and comparing machine traces (harness/c13.py).
-/
namespace PV.Props.C13
open PV.Modules

theorem takeWhile_append_dot (m rest : List Char) (h : dotFree m) : (m ++ '.' :: rest).takeWhile (· ≠ '.') = m := by
  induction m with
  | nil => simp
  | cons c cs ih =>
    have hc : c ≠ '.' := h c (by simp)
    simp only [List.cons_append, List.takeWhile_cons, hc, ne_eq, not_false_eq_true, decide_true, if_true]
    rw [ih (fun x hx => h x (by simp [hx]))]

theorem takeWhile_dotFree (m : List Char) (h : dotFree m) : m.takeWhile (· ≠ '.') = m := by
  induction m with
  | nil => rfl
  | cons c cs ih =>
    have hc : c ≠ '.' := h c (by simp)
    simp only [List.takeWhile_cons, hc, ne_eq, not_false_eq_true, decide_true, if_true]
    rw [ih (fun x hx => h x (by simp [hx]))]

/-- the part of a library scope key before the first dot is the module name -/
theorem module_head (m : List Char) (f : Option (List Char)) (hm : dotFree m) (hne : m ≠ []) :
    (scopeKey m f).takeWhile (· ≠ '.') = m := by
  cases f with
  | none => exact takeWhile_dotFree m hm
  | some fn =>
    have : m.isEmpty = false := by cases m <;> simp_all
    simp only [scopeKey, this, Bool.false_eq_true, if_false]
    exact takeWhile_append_dot m fn hm

/-- **equal names in different modules never share storage**: scope keys of different library modules differ -/
theorem scope_keys_disjoint (m₁ m₂ : List Char) (f₁ f₂ : Option (List Char)) (h₁ : dotFree m₁) (h₂ : dotFree m₂)
    (hne₁ : m₁ ≠ []) (hne₂ : m₂ ≠ []) (hdiff : m₁ ≠ m₂) : scopeKey m₁ f₁ ≠ scopeKey m₂ f₂ := by
  intro h
  have e₁ := module_head m₁ f₁ h₁ hne₁
  have e₂ := module_head m₂ f₂ h₂ hne₂
  rw [h, e₂] at e₁
  exact hdiff e₁.symm

/-- **a library's `if __name__ == "__main__"` block is dead**: `__name__` folds to the module name there -/
theorem name_is_not_main_in_library (m : List Char) (f : Option (List Char)) (hm : dotFree m) (hne : m ≠ [])
    (hnot : m ≠ "__main__".toList) : nameConst (scopeKey m f) = m ∧ nameConst (scopeKey m f) ≠ "__main__".toList := by
  have h := module_head m f hm hne
  have : nameConst (scopeKey m f) = m := by
    unfold nameConst
    simp only [h]
    have : m.isEmpty = false := by cases m <;> simp_all
    simp [this]
  exact ⟨this, by rw [this]; exact hnot⟩

/-- in the main file `__name__` is "__main__" -/
theorem name_is_main_in_main (f : Option (List Char)) (hf : ∀ fn, f = some fn → dotFree fn ∧ fn ≠ []) :
    f = none → nameConst (scopeKey [] f) = "__main__".toList := by
  intro h; subst h; rfl

/-- labels are injective on qualified names without underscores (the mangling is the identity there) -/
theorem mangle_injective_partial (a b : List Char) (ha : ∀ c ∈ a, c ≠ '_') (hb : ∀ c ∈ b, c ≠ '_') (h : mangle a = mangle b) : a = b := by
  have ida : ∀ (l : List Char), (∀ c ∈ l, c ≠ '_') → mangle l = l := by
    intro l hl
    induction l with
    | nil => rfl
    | cons c cs ih =>
      have hc : c ≠ '_' := hl c (by simp)
      simp only [mangle, List.map_cons, hc, if_false]
      congr 1
      exact ih (fun x hx => hl x (by simp [hx]))
  rw [ida a ha, ida b hb] at h
  exact h

/-- F-C05-b witness: with underscores two different functions get the same label -/
example : mangle "a_b".toList = mangle "a.b".toList ∧ "a_b".toList ≠ "a.b".toList := by decide

end PV.Props.C13
