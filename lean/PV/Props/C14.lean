import PV.Model.Daemon
import PV.Proofs.B64
/-!
# C14 — the compile daemon answers every request with exactly one line

Model: `PV.Daemon.run` / `processInput` (read loop and try/except/finally skeleton of
`mod_daemon.py`).  The compiler and the codecs are parameters: the theorems hold for *every*
behaviour of them (including raising), which is the "malformed, undecodable or failing requests"
quantifier of the property.
-/
namespace PV.Props.C14
open PV.Daemon PV.PyStr

variable {J : Type}

theorem run_blank (h : Handler J) (raw : List Char) (rest : List (List Char))
    (hc : classify raw = .blank) : run h (raw :: rest) = run h rest := by
  simp only [run, hc]

theorem run_exit (h : Handler J) (raw : List Char) (rest : List (List Char))
    (hc : classify raw = .exit) : run h (raw :: rest) = [] := by
  simp only [run, hc]

theorem run_payload (h : Handler J) (raw l : List Char) (rest : List (List Char))
    (hc : classify raw = .payload l) :
    run h (raw :: rest) = (processInput h l).toList ++ run h rest := by
  simp only [run, hc]
  cases processInput h l <;> simp

theorem requests_blank (raw : List Char) (rest : List (List Char))
    (hc : classify raw = .blank) : requests (raw :: rest) = requests rest := by
  simp only [requests, hc]

theorem requests_exit (raw : List Char) (rest : List (List Char))
    (hc : classify raw = .exit) : requests (raw :: rest) = [] := by
  simp only [requests, hc]

theorem requests_payload (raw l : List Char) (rest : List (List Char))
    (hc : classify raw = .payload l) : requests (raw :: rest) = l :: requests rest := by
  simp only [requests, hc]

/-- every non-empty request produces a response object: the `finally:` clause always has something
    to print, whatever the decoders and the compiler do. -/
theorem respond_total (h : Handler J) (line : List Char) : (processInput h line).isSome = true := by
  unfold processInput body
  cases h.decode line with
  | error e => cases e <;> rfl
  | ok m =>
    obtain ⟨action, code, options⟩ := m
    by_cases ha : action ≠ compileAction
    · simp [ha]
    · simp only [ha, if_false]
      cases code with
      | none => rfl
      | some modules =>
        simp only
        cases h.compile modules options <;> rfl

/-- **exactly one line per non-empty request line, in request order**: the i-th output answers the
    i-th request. -/
theorem one_line_per_request (h : Handler J) (lines : List (List Char)) :
    (run h lines).map some = (requests lines).map (processInput h) := by
  induction lines with
  | nil => rfl
  | cons raw rest ih =>
    cases hc : classify raw with
    | blank => rw [run_blank h raw rest hc, requests_blank raw rest hc]; exact ih
    | exit => rw [run_exit h raw rest hc, requests_exit raw rest hc]; rfl
    | payload l =>
      rw [run_payload h raw l rest hc, requests_payload raw l rest hc]
      have := respond_total h l
      cases hp : processInput h l with
      | none => simp [hp] at this
      | some r => simp [ih, hp]

theorem output_count (h : Handler J) (lines : List (List Char)) :
    (run h lines).length = (requests lines).length := by
  have := congrArg List.length (one_line_per_request h lines)
  simpa using this

/-- **faults do not stop the daemon or disturb later answers**: whatever the first line is (blank,
    undecodable, wrong shape, crashing the compiler — anything but EXIT), the answers to the
    remaining lines are exactly what they would have been on their own. -/
theorem faults_do_not_stop (h : Handler J) (raw : List (Char)) (rest : List (List Char))
    (hne : classify raw ≠ .exit) :
    ∃ pre, run h (raw :: rest) = pre ++ run h rest ∧ pre.length ≤ 1 := by
  cases hc : classify raw with
  | blank => exact ⟨[], by simp [run_blank h raw rest hc], by simp⟩
  | exit => exact absurd hc hne
  | payload l =>
    refine ⟨(processInput h l).toList, run_payload h raw l rest hc, ?_⟩
    cases processInput h l <;> simp

/-- **EXIT stops it**: nothing after an EXIT line is answered. -/
theorem stops_on_exit (h : Handler J) (pre post : List (List Char)) (raw : List Char)
    (hx : classify raw = .exit) : run h (pre ++ raw :: post) = run h (pre ++ [raw]) := by
  induction pre with
  | nil => simp [run_exit h raw _ hx]
  | cons p pre ih =>
    simp only [List.cons_append]
    cases hc : classify p with
    | blank => rw [run_blank h p _ hc, run_blank h p _ hc]; exact ih
    | exit => rw [run_exit h p _ hc, run_exit h p _ hc]
    | payload l => rw [run_payload h p l _ hc, run_payload h p l _ hc, ih]

/-- a bad-JSON request is answered by the "Invalid JSON" object, any other failure by an internal-error
    object — never by silence. -/
theorem fault_answers (h : Handler J) (line : List Char) :
    (h.decode line = .error none → processInput h line = some h.invalidJson) ∧
    (∀ m, h.decode line = .error (some m) → processInput h line = some (h.internalError m)) := by
  constructor
  · intro hd; simp [processInput, body, hd]
  · intro m hd; simp [processInput, body, hd]

/-! non-vacuity: a concrete handler and history -/
private def demo : Handler Nat :=
  { decode := fun l => if l = "bad".toList then .error none else if l = "boom".toList then .error (some [])
                       else .ok ("compile".toList, some l, [])
    compile := fun m _ => if m = "crash".toList then .error [] else .ok m.length
    invalidAction := fun _ => 1000, noCode := 1001, invalidJson := 1002, internalError := fun _ => 1003 }

example : run demo ["abc".toList, "  ".toList, "bad\r".toList, "crash".toList, " boom ".toList, "xy".toList,
    "EXIT".toList, "late".toList] = [3, 1002, 1003, 1003, 2] := by decide +kernel

end PV.Props.C14
