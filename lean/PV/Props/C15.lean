import PV.Proofs.Pragma
/-!
# C15 — in-source `# pytrapic:` directives set exactly the named options

Model: `PV.Pragma.scan` (the directive loop of `compiler.compile_code`).  `directives src` is the
ordered list of `(option name, value)` pairs the loop applies; `scan src o = applyAll (directives src) o`
holds by definition, so the laws below are laws of the scanner.
-/
namespace PV.Props.C15
open PV.Pragma PV.PyStr

/-- **frame**: an option that no directive names keeps the caller's value. -/
theorem scan_frame (src : List Char) (o : Opts) (f : Name)
    (h : ∀ d ∈ directives src, d.1 ≠ f) : lookup (scan src o) f = lookup o f := by
  unfold scan
  rw [applyAll_eq_map, lookup_map (f := fun n b => final (directives src) n b)]
  cases hl : lookup o f with
  | none => rfl
  | some b => simp [final_none _ _ _ h]

/-- **last wins**: when several directives name the same (known) option, the last one decides. -/
theorem scan_last_wins (src : List Char) (o : Opts) (f : Name) (v b : Bool)
    (ds es : List (Name × Bool)) (hsplit : directives src = ds ++ (f, v) :: es)
    (hes : ∀ d ∈ es, d.1 ≠ f) (hknown : lookup o f = some b) :
    lookup (scan src o) f = some v := by
  unfold scan
  rw [applyAll_eq_map, lookup_map (f := fun n b => final (directives src) n b), hknown, hsplit]
  simp [final_last ds es f v b hes]

/-- **unknown names are ignored**: a directive whose name is not an option changes nothing … -/
theorem setOpt_unknown (o : Opts) (n : Name) (v : Bool) (h : lookup o n = none) : setOpt o n v = o := by
  unfold setOpt
  have : ∀ p ∈ o, p.1 ≠ n := by
    intro p hp e
    unfold lookup at h
    have hf : (o.find? (fun q => q.1 = n)) = none := by
      cases hq : o.find? (fun q => q.1 = n) with
      | none => rfl
      | some q => simp [hq] at h
    have := List.find?_eq_none.mp hf p hp
    simp [e] at this
  conv => rhs; rw [← List.map_id o]
  apply List.map_congr_left
  intro ⟨m, b⟩ hp
  have := this (m, b) hp
  simp at this
  simp [this]

/-- … and no directive can ever add, drop or rename an option. -/
theorem scan_known_only (src : List Char) (o : Opts) : (scan src o).map (·.1) = o.map (·.1) := by
  unfold scan
  rw [applyAll_eq_map]
  simp [List.map_map, Function.comp_def]

/-- **spelling**: for every option of `CompileOptions` (regenerated table) the tag `f` sets it, the
    tags `no_f` and `no-f` clear it, and `-` may be written for `_` anywhere in the tag. -/
theorem tag_spellings :
    ∀ p ∈ defaults,
      directiveOfTag p.1 = (p.1, true) ∧
      directiveOfTag (noPrefix ++ p.1) = (p.1, false) ∧
      directiveOfTag ("no-".toList ++ p.1) = (p.1, false) ∧
      directiveOfTag (replaceChar '_' '-' p.1) = (p.1, true) ∧
      directiveOfTag ("no-".toList ++ replaceChar '_' '-' p.1) = (p.1, false) ∧
      directiveOfTag (' ' :: p.1 ++ [' ']) = (p.1, true) := by
  decide +kernel

private theorem dropWhile_map_space (f : Char → Char) (hf : ∀ c, isSpace (f c) = isSpace c)
    (l : List Char) : (l.map f).dropWhile isSpace = (l.dropWhile isSpace).map f := by
  induction l with
  | nil => rfl
  | cons a l ih => simp only [List.map_cons, List.dropWhile_cons, hf]; split <;> simp [ih]

private theorem strip_map (f : Char → Char) (hf : ∀ c, isSpace (f c) = isSpace c) (l : List Char) :
    strip (l.map f) = (strip l).map f := by
  unfold strip rstrip lstrip
  rw [dropWhile_map_space f hf, ← List.map_reverse, dropWhile_map_space f hf, List.map_reverse]

private theorem dashToUnderscore_space (c : Char) :
    isSpace (if c = '-' then '_' else c) = isSpace c := by
  by_cases h : c = '-'
  · subst h; decide
  · simp [h]

/-- **`-` and `_` are alike**: two tags that differ only in `-` versus `_` are the same directive. -/
theorem dash_underscore_alike (t₁ t₂ : List Char)
    (h : replaceChar '-' '_' t₁ = replaceChar '-' '_' t₂) : directiveOfTag t₁ = directiveOfTag t₂ := by
  unfold directiveOfTag
  have e : ∀ t, replaceChar '-' '_' (strip t) = strip (replaceChar '-' '_' t) := by
    intro t; unfold replaceChar; rw [strip_map _ dashToUnderscore_space]
  simp only [e, h]

/-- **code lines are inert**: a line whose first non-blank character is not `#` carries no
    directive, wherever `pytrapic:` occurs in it (after code, inside a string, …). -/
theorem scan_code_line_inert (line : List Char) (h : (lstrip line).head? ≠ some '#') :
    lineDirectives line = [] := by
  unfold lineDirectives
  by_cases hc : contains line marker
  · have : startsWith (strip line) ['#'] = false := by
      cases hs : startsWith (strip line) ['#'] with
      | false => rfl
      | true => rw [startsWith_hash_iff, strip_head] at hs; exact absurd hs h
    simp [hc, this]
  · simp [hc]

/-- **idempotence**: scanning again changes nothing. -/
theorem scan_idempotent (src : List Char) (o : Opts) : scan src (scan src o) = scan src o := by
  unfold scan
  rw [applyAll_eq_map, applyAll_eq_map, List.map_map]
  apply List.map_congr_left
  intro p _
  simp [final_idem]

/-- **directive = API**: for any compiler `core`, compiling `src` under the caller's options equals
    compiling it under the options the directives produce. -/
theorem scan_eq_api {R : Type} (core : List Char → Opts → R) (src : List Char) (o : Opts) :
    (fun s b => core s (scan s b)) src (scan src o) = (fun s b => core s (scan s b)) src o := by
  simp only [scan_idempotent]

/-! non-vacuity: a concrete text with two directive lines, a directive after code and one in a string -/
example :
    directives ("x = 1  # pytrapic: compact\n  # pytrapic: no-inline-functions, compact ,bogus\ns = \"# pytrapic: remove_labels\"\n#pytrapic:no_compact".toList)
      = [("inline_functions".toList, false), ("compact".toList, true), ("bogus".toList, true),
         ("compact".toList, false)] := by decide +kernel

example : lookup (scan "# pytrapic: compact\n# pytrapic: no-compact".toList defaults) "compact".toList
    = some false := by decide +kernel

end PV.Props.C15
