import PV.Model.Tables
/-!
# C16 — device, enum and instruction tables are internally consistent

The quantifier of the property is a finite table, regenerated from /repo on every run by
`tools/extract.py` (`PV.Gen.*`) and enumerated completely here by kernel evaluation (`decide +kernel`).
A wrong stored hash, a plural pointing at another prefab, a named slot with the wrong index, an
intrinsic emitting a neighbour's opcode / swapping operands / losing its result, or a duplicated enum
number makes exactly one of these theorems fail to check.
-/
namespace PV.Props.C16
open PV PV.Gen PV.Tables

/-! ### structures — one group of kernel-evaluated facts per regenerated chunk (checked in parallel) -/

theorem rowOk_iff (r : StructRow) : rowOk r = (hashOk r && pluralOk r && slotOk r) := rfl

theorem hash_0 : structChunk0.all hashOk = true := by decide +kernel
theorem plural_0 : structChunk0.all pluralOk = true := by decide +kernel
theorem slot_0 : structChunk0.all slotOk = true := by decide +kernel
theorem hash_1 : structChunk1.all hashOk = true := by decide +kernel
theorem plural_1 : structChunk1.all pluralOk = true := by decide +kernel
theorem slot_1 : structChunk1.all slotOk = true := by decide +kernel
theorem hash_2 : structChunk2.all hashOk = true := by decide +kernel
theorem plural_2 : structChunk2.all pluralOk = true := by decide +kernel
theorem slot_2 : structChunk2.all slotOk = true := by decide +kernel
theorem hash_3 : structChunk3.all hashOk = true := by decide +kernel
theorem plural_3 : structChunk3.all pluralOk = true := by decide +kernel
theorem slot_3 : structChunk3.all slotOk = true := by decide +kernel
theorem hash_4 : structChunk4.all hashOk = true := by decide +kernel
theorem plural_4 : structChunk4.all pluralOk = true := by decide +kernel
theorem slot_4 : structChunk4.all slotOk = true := by decide +kernel
theorem hash_5 : structChunk5.all hashOk = true := by decide +kernel
theorem plural_5 : structChunk5.all pluralOk = true := by decide +kernel
theorem slot_5 : structChunk5.all slotOk = true := by decide +kernel
theorem hash_6 : structChunk6.all hashOk = true := by decide +kernel
theorem plural_6 : structChunk6.all pluralOk = true := by decide +kernel
theorem slot_6 : structChunk6.all slotOk = true := by decide +kernel
theorem hash_7 : structChunk7.all hashOk = true := by decide +kernel
theorem plural_7 : structChunk7.all pluralOk = true := by decide +kernel
theorem slot_7 : structChunk7.all slotOk = true := by decide +kernel

theorem all_and3 {α : Type} (l : List α) (p q r : α → Bool) (hp : l.all p = true) (hq : l.all q = true) (hr : l.all r = true) :
    l.all (fun x => p x && q x && r x) = true := by
  rw [List.all_eq_true] at *
  intro x hx; simp [hp x hx, hq x hx, hr x hx]

theorem chunk_ok (c : List StructRow) (h1 : c.all hashOk = true) (h2 : c.all pluralOk = true) (h3 : c.all slotOk = true) :
    c.all rowOk = true := by
  have := all_and3 c hashOk pluralOk slotOk h1 h2 h3
  rw [List.all_eq_true] at *
  intro x hx; rw [rowOk_iff]; exact this x hx

theorem structChunks_eq : structChunks = [structChunk0, structChunk1, structChunk2, structChunk3, structChunk4, structChunk5, structChunk6, structChunk7] := rfl

/-- every structure row: hash = signed CRC-32 of the prefab name, plural reachable with the same hash, slots resolve -/
theorem structures_ok : structChunks.all (fun c => c.all rowOk) = true := by
  rw [structChunks_eq]
  simp only [List.all_cons, List.all_nil, Bool.and_true, Bool.and_eq_true]
  exact ⟨chunk_ok _ hash_0 plural_0 slot_0, chunk_ok _ hash_1 plural_1 slot_1, chunk_ok _ hash_2 plural_2 slot_2, chunk_ok _ hash_3 plural_3 slot_3, chunk_ok _ hash_4 plural_4 slot_4, chunk_ok _ hash_5 plural_5 slot_5, chunk_ok _ hash_6 plural_6 slot_6, chunk_ok _ hash_7 plural_7 slot_7⟩

theorem structures_complete : (structChunks.map List.length).sum = structCount := by decide +kernel

/-- the statement of `structures_ok` unfolded for a reader: for every row of every chunk … -/
theorem structures_hash_ok (c : List StructRow) (hc : c ∈ structChunks) (r : StructRow) (hr : r ∈ c) :
    r.hashS = calcHashBytes r.prefab ∧ r.hashP = r.hashS ∧ r.pluralPrefab = r.prefab ∧ r.plural ≠ "" := by
  have h := structures_ok
  rw [List.all_eq_true] at h
  have h2 := h c hc
  rw [List.all_eq_true] at h2
  have h3 := h2 r hr
  rw [rowOk_iff] at h3
  simp only [hashOk, pluralOk, Bool.and_eq_true, beq_iff_eq, bne_iff_ne, ne_eq] at h3
  exact ⟨h3.1.1.1, h3.1.2.1.2, h3.1.2.1.1.2, h3.1.2.1.1.1⟩

theorem named_slot_resolves (c : List StructRow) (hc : c ∈ structChunks) (r : StructRow) (hr : r ∈ c) :
    slotsOk r.slotsS = true ∧ slotsOk r.slotsP = true ∧ r.slotsP = r.slotsS := by
  have h := structures_ok
  rw [List.all_eq_true] at h
  have h2 := h c hc
  rw [List.all_eq_true] at h2
  have h3 := h2 r hr
  rw [rowOk_iff] at h3
  simp only [hashOk, pluralOk, slotOk, Bool.and_eq_true, beq_iff_eq] at h3
  exact ⟨h3.2, by rw [h3.1.2.2]; exact h3.2, h3.1.2.2⟩

/-- Intrinsic wrappers whose signature contradicts the instruction on the pinned tree (known findings F-C16-a/b,
    DESIGN §5): `rmap`, `ext`, `ins` have an output register but yield no result (the register is an ordinary
    parameter); the `bdns`/`bdse` family yields a "result" although the instruction has no output register (and the
    device operand is missing).  They are excluded here by name and refuted in `PV.Findings.C16`. -/
def knownBadIntrinsics : List String :=
  ["rmap", "ext", "ins", "bdns", "bdnsal", "bdse", "bdseal", "brdns", "brdse"]

/-- every other intrinsic wrapper emits the instruction of its own name, arguments in order, a result exactly when
    the instruction has an output register; the opcode exists in the repository's own instruction list -/
theorem intrinsic_rows_ok_partial :
    (intrinsics.filter (fun r => !knownBadIntrinsics.contains r.pyName)).all intrinsicOk = true := by decide +kernel

/-- even the excluded wrappers emit the instruction of their own name with their arguments in order -/
theorem intrinsic_names_and_order_ok :
    intrinsics.all (fun r => notInstructions.contains r.pyName ||
      (r.op == opOfPyName r.pyName && r.argPos == List.range r.argPos.length && ic10Instructions.contains r.op)) = true := by
  decide +kernel

/-- within each enumeration no two names share a number -/
theorem enum_values_injective : enums.all enumOk = true := by decide +kernel

theorem inj_of_nodup_map {α β : Type} (f : α → β) : ∀ (l : List α), (l.map f).Nodup →
    ∀ a b, a ∈ l → b ∈ l → f a = f b → a = b
  | [], _, _, _, ha, _, _ => by cases ha
  | x :: xs, h, a, b, ha, hb, hv => by
    rw [List.map_cons, List.nodup_cons] at h
    rcases List.mem_cons.mp ha with rfl | ha' <;> rcases List.mem_cons.mp hb with rfl | hb'
    · rfl
    · exact absurd (List.mem_map.mpr ⟨b, hb', hv.symm⟩) h.1
    · exact absurd (List.mem_map.mpr ⟨a, ha', hv⟩) h.1
    · exact inj_of_nodup_map f xs h.2 a b ha' hb' hv

/-- so the name printed in verbose mode and the number printed in compact mode denote the same member -/
theorem enum_member_unique (e : String × List (String × Int)) (he : e ∈ enums)
    (a b : String × Int) (ha : a ∈ e.2) (hb : b ∈ e.2) (hv : a.2 = b.2) : a = b := by
  have h := enum_values_injective
  rw [List.all_eq_true] at h
  have h2 := h e he
  simp only [enumOk, decide_eq_true_eq] at h2
  exact inj_of_nodup_map (·.2) e.2 h2 a b ha hb hv

/-! non-vacuity: the tables are not empty -/
example : 0 < structCount ∧ 0 < intrinsics.length ∧ 0 < enums.length ∧ (structChunks.map List.length).sum = structCount := by decide +kernel

end PV.Props.C16
