import PV.Model.Stats
import PV.Props.C04
/-!
# C17 — reported size statistics describe the emitted program

`num_lines` / `num_bytes` as computed by the transpiler from the final string, related to the list of
lines the program consists of.  The register count (`num_registers`) is tied to the allocator's
mapping in `PV.Props.C04`/the correspondence run (`harness/c17.py`).
-/
namespace PV.Props.C17
open PV.PyStr PV.Stats

theorem isBreak_nl : isBreak '\n' = true := by decide
theorem nl_ne_cr : ('\n' : Char) ≠ '\r' := by decide

/-- scanning a break-free prefix only accumulates it -/
theorem aux_prefix (l rest cur : List Char) (h : NoBreaks l) :
    splitlinesAux (l ++ rest) cur = splitlinesAux rest (l.reverse ++ cur) := by
  induction l generalizing cur with
  | nil => simp
  | cons c l ih =>
    have hc : isBreak c = false := h c (by simp)
    have hcr : c ≠ '\r' := by
      intro e; subst e; exact absurd hc (by decide)
    have hl : NoBreaks l := fun x hx => h x (by simp [hx])
    rw [List.cons_append, splitlinesAux]
    simp only [hcr, if_false, hc]
    rw [ih (c :: cur) hl]
    simp

/-- `"\n".join(ls).splitlines() == ls` for break-free lines whose last line is not empty -/
theorem splitlines_join (ls : List (List Char)) (hne : ls ≠ []) (hb : ∀ l ∈ ls, NoBreaks l)
    (hlast : ls.getLast hne ≠ []) : splitlines (join ['\n'] ls) = ls := by
  unfold splitlines
  induction ls with
  | nil => exact absurd rfl hne
  | cons l rest ih =>
    cases rest with
    | nil =>
      simp only [join]
      have := aux_prefix l [] [] (hb l (by simp))
      simp only [List.append_nil] at this
      rw [this, splitlinesAux]
      simp only [List.getLast_singleton] at hlast
      simp [hlast]
    | cons l2 rest2 =>
      simp only [join]
      rw [List.append_assoc, aux_prefix l _ [] (hb l (by simp))]
      simp only [List.append_nil, List.singleton_append]
      rw [splitlinesAux]
      simp only [nl_ne_cr, if_false, isBreak_nl, if_true, List.reverse_reverse]
      have := ih (by simp) (fun x hx => hb x (by simp [hx])) (by simpa using hlast)
      rw [this]

theorem join_length (sep : List Char) (ls : List (List Char)) :
    (join sep ls).length = (ls.map List.length).sum + sep.length * (ls.length - 1) := by
  induction ls with
  | nil => simp [join]
  | cons l rest ih =>
    cases rest with
    | nil => simp [join]
    | cons l2 rest2 =>
      simp only [join, List.length_append, ih, List.map_cons, List.sum_cons, List.length_cons]
      have : rest2.length + 1 + 1 - 1 = (rest2.length + 1 - 1) + 1 := by omega
      rw [this, Nat.mul_succ]
      omega

/-- **num_lines** is the number of lines of `code`. -/
theorem num_lines_ok (ls : List (List Char)) (hne : ls ≠ []) (hb : ∀ l ∈ ls, NoBreaks l)
    (hlast : ls.getLast hne ≠ []) : numLines (join ['\n'] ls) = ls.length := by
  unfold numLines; rw [splitlines_join ls hne hb hlast]

/-- **num_bytes** is the size of `code` with two-byte line ends. -/
theorem num_bytes_crlf (ls : List (List Char)) (hne : ls ≠ []) (hb : ∀ l ∈ ls, NoBreaks l)
    (hlast : ls.getLast hne ≠ []) :
    numBytes (join ['\n'] ls) = (join ['\r', '\n'] ls).length := by
  unfold numBytes
  rw [num_lines_ok ls hne hb hlast, join_length, join_length]
  simp only [List.length_cons, List.length_nil]
  omega

/-- the empty program has size 0 (after repair F-C17-a; before it the code reported -1). -/
theorem empty_program : numLines [] = 0 ∧ numBytes [] = 0 := by
  simp [numLines, numBytes, splitlines, splitlinesAux]

/-! non-vacuity -/
example : NoBreaks "s db Setting 1".toList := by
  intro c hc; revert c; decide +kernel
example : numLines "move r0 1\ns db Setting r0".toList = 2 ∧ numBytes "move r0 1\ns db Setting r0".toList = 26 := by
  decide +kernel

end PV.Props.C17
