import PV.Proofs.B64
/-!
# C18 — share links round-trip

Model: `PV.B64.encodeTail` / `decodeTail` (the base64 / alphabet-substitution / padding part of
`types.encode_data` / `types.decode_data`); zlib and JSON are parameters with their inverse laws as
hypotheses (`share_roundtrip`).
-/
namespace PV.Props.C18
open PV.B64

/-- Folding the pad characters that `repad` appends brings the decoder to `done` (or leaves it
    at a quad boundary). -/
private theorem pads_finish (s : DSt) (hd : s.done = false) (hp : s.quad ≠ 0 → s.pads = 0)
    (hq : s.quad = 0 ∨ s.quad = 2 ∨ s.quad = 3) :
    let k := (match s.quad with | 0 => 0 | 2 => 2 | _ => 1)
    let r := (List.replicate k '=').foldl dstep s
    (r.done || r.quad = 0) = true ∧ r.out = s.out := by
  rcases hq with h | h | h
  · simp [h]
  · have hp0 := hp (by omega)
    simp [h, List.replicate, dstep, hd, hp0]
  · have hp0 := hp (by omega)
    simp [h, List.replicate, dstep, hd, hp0]

/-- **C18 (byte level).** For every byte string, what `decode_data` hands to zlib is what
    `encode_data` got from zlib. -/
theorem b64_roundtrip (bs : List Nat) (hb : ∀ b ∈ bs, b < 256) :
    decodeTail (encodeTail bs) = some bs := by
  rw [encodeTail_eq bs hb]
  have hlen := encU_length bs
  have hf := fold_encU bs hb {} rfl rfl
  simp only at hf
  obtain ⟨hd, hout, hquad, hpads⟩ := hf
  unfold decodeTail a2b repad
  have h3 : bs.length % 3 = 0 ∨ bs.length % 3 = 1 ∨ bs.length % 3 = 2 := by omega
  rcases h3 with h | h | h
  · simp only [h] at hlen hquad
    simp [hlen, hquad, hout]
  · simp only [h] at hlen hquad
    have hfin := pads_finish _ hd hpads (Or.inr (Or.inl hquad))
    simp only [hquad] at hfin
    simp only [hlen]
    simp only [show (2:Nat) ≠ 0 by decide, if_false, List.map_append, List.foldl_append,
      List.map_replicate, show toStd '=' = '=' by decide, show 4 - 2 = 2 by decide]
    simp only [Bool.or_eq_true, decide_eq_true_eq, List.replicate, List.foldl_cons,
      List.foldl_nil] at hfin
    obtain ⟨h1, h2⟩ := hfin
    simp only [List.replicate, List.foldl_cons, List.foldl_nil, Bool.or_eq_true,
      decide_eq_true_eq, h1, if_true, h2, hout, List.nil_append]
  · simp only [h] at hlen hquad
    have hfin := pads_finish _ hd hpads (Or.inr (Or.inr hquad))
    simp only [hquad] at hfin
    simp only [hlen]
    simp only [show (3:Nat) ≠ 0 by decide, if_false, List.map_append, List.foldl_append,
      List.map_replicate, show toStd '=' = '=' by decide, show 4 - 3 = 1 by decide]
    simp only [Bool.or_eq_true, decide_eq_true_eq, List.replicate, List.foldl_cons,
      List.foldl_nil] at hfin
    obtain ⟨h1, h2⟩ := hfin
    simp only [List.replicate, List.foldl_cons, List.foldl_nil, Bool.or_eq_true,
      decide_eq_true_eq, h1, if_true, h2, hout, List.nil_append]

/-- **C18 (alphabet).** The encoded form consists only of letters, digits, `-` and `_`. -/
theorem urlsafe (bs : List Nat) (hb : ∀ b ∈ bs, b < 256) :
    ∀ c ∈ encodeTail bs, urlSafe c = true := by
  rw [encodeTail_eq bs hb]
  induction bs using encU.induct with
  | case1 => simp [encU]
  | case2 a =>
    have ha : a < 256 := hb a (by simp)
    intro c hc
    simp only [encU, List.mem_cons, List.not_mem_nil, or_false] at hc
    rcases hc with rfl | rfl <;> apply urlSafe_enc <;> omega
  | case3 a b =>
    have ha : a < 256 := hb a (by simp)
    have hb' : b < 256 := hb b (by simp)
    intro c hc
    simp only [encU, List.mem_cons, List.not_mem_nil, or_false] at hc
    rcases hc with rfl | rfl | rfl <;> apply urlSafe_enc <;> omega
  | case4 a b c rest ih =>
    have ha : a < 256 := hb a (by simp)
    have hb' : b < 256 := hb b (by simp)
    have hc' : c < 256 := hb c (by simp)
    intro x hx
    simp only [encU, List.mem_cons] at hx
    rcases hx with rfl | rfl | rfl | rfl | hx
    · apply urlSafe_enc; omega
    · apply urlSafe_enc; omega
    · apply urlSafe_enc; omega
    · apply urlSafe_enc; omega
    · exact ih (fun y hy => hb y (by simp [hy])) x hx

/-- **C18 (whole pipeline).** With zlib and JSON as parameters satisfying their inverse laws on
    the values that occur, `decode_data (encode_data d) = d`. -/
theorem share_roundtrip {D : Type}
    (jsonDump : D → List Nat) (jsonLoad : List Nat → Option D)
    (zc : List Nat → List Nat) (zd : List Nat → Option (List Nat))
    (d : D)
    (hj : jsonLoad (jsonDump d) = some d)
    (hz : zd (zc (jsonDump d)) = some (jsonDump d))
    (hbytes : ∀ b ∈ zc (jsonDump d), b < 256) :
    ((decodeTail (encodeTail (zc (jsonDump d)))).bind zd).bind jsonLoad = some d := by
  rw [b64_roundtrip _ hbytes]
  simp [hz, hj]

/-- non-vacuity: the hypotheses are met by a concrete byte string, and the encoding is non-trivial -/
example : decodeTail (encodeTail [120, 156, 255, 0, 62]) = some [120, 156, 255, 0, 62] := by
  decide +kernel
example : encodeTail [251, 255] = ['-', '_', '8'] := by decide +kernel

end PV.Props.C18
