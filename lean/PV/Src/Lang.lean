import PV.IC10.Machine
/-
The source dialect — trusted specification (DESIGN §2.2): abstract syntax of the supported Python
subset *after* static resolution of device / structure expressions to primitive reads and writes, and its
reference semantics: Python control flow and scoping, arithmetic by the same `Sem V` the machine uses.

The harness's program generator produces this AST and prints it as dialect Python for the transpiler.
-/
namespace PV.Src
open PV.IC10

inductive Expr (V : Type) where
  | num (v : V)
  | gvar (n : String)
  | lvar (n : String)
  /-- `op` is the name of the chip's ALU operation that defines the operator (`+` ↦ "add", `<` ↦ "slt", `and` ↦ "and", …) -/
  | bin (op : String) (a b : Expr V)
  | un (op : String) (a : Expr V)          -- "neg" | "not" (logical, seqz) | any unary ALU op
  | ifexp (c a b : Expr V)
  | read (q : String) (args : List (Expr V))
  | sget (a : Expr V)                       -- own stack `stack[a]`
  | prim (op : String) (args : List (Expr V))   -- intrinsic / math function as ALU operation
  | index (vals : List (Expr V)) (i : Expr V)   -- constant list with dynamic index
  | call (f : String) (args : List (Expr V))
  deriving Repr

inductive Stmt (V : Type) where
  | gassign (n : String) (e : Expr V)
  | lassign (n : String) (e : Expr V)
  | write (q : String) (args : List (Expr V))
  | sput (a v : Expr V)
  | ite (c : Expr V) (t e : List (Stmt V))
  | while (c : Expr V) (body : List (Stmt V))
  | forRange (isGlobal : Bool) (x : String) (start stop step : Expr V) (body : List (Stmt V))
  | forList (isGlobal : Bool) (x : String) (vals : List (Expr V)) (body : List (Stmt V))
  | brk | cont
  | ret (e : Option (Expr V))
  | expr (e : Expr V)
  | yield
  | sleep (e : Expr V)
  | hcf
  | push (e : Expr V)
  | pass
  deriving Repr

structure Func (V : Type) where
  name : String
  params : List String
  body : List (Stmt V)
  deriving Repr

structure Program (V : Type) where
  funcs : List (Func V)
  main : List (Stmt V)
  deriving Repr

/-! ### semantics -/

abbrev Store (V : Type) := List (String × V)

def Store.get {V : Type} (s : Store V) (n : String) : Option V := (s.find? (·.1 == n)).map (·.2)
def Store.set {V : Type} (s : Store V) (n : String) (v : V) : Store V :=
  if s.any (·.1 == n) then s.map (fun p => if p.1 == n then (n, v) else p) else (n, v) :: s

structure State (V : Type) where
  globals : Store V
  mem : Nat → V
  sp : Nat
  trace : List (Eff V)

inductive Signal (V : Type) where
  | normal
  | brk
  | cont
  | ret (v : Option V)

inductive Err where
  | fuel            -- ran out of fuel (non-terminating or long program): the trace so far is a prefix
  | unbound (n : String)
  | fault (why : String)   -- the reference semantics has no answer (e.g. bad stack address): program outside the compared domain
  | halt            -- hcf executed
  deriving Repr

/-- result of running something: the state reached, and either a value or why it stopped -/
abbrev Res (V α : Type) := State V × Except Err α

section
variable {V : Type} (sem : Sem V) (env : Env V) (P : Program V)

def truthy (v : V) : Bool := sem.truthy v

mutual
def evalExpr (fuel : Nat) (loc : Store V) (st : State V) : Expr V → Res V V
  | e => match fuel with
    | 0 => (st, .error .fuel)
    | fuel + 1 =>
      match e with
      | .num v => (st, .ok v)
      | .gvar n => match st.globals.get n with
        | some v => (st, .ok v)
        | none => (st, .error (.unbound n))
      | .lvar n => match loc.get n with
        | some v => (st, .ok v)
        | none => (st, .error (.unbound n))
      | .bin op a b =>
        match evalExpr fuel loc st a with
        | (st, .ok va) => match evalExpr fuel loc st b with
          | (st, .ok vb) => (st, .ok (sem.alu op [va, vb]))
          | (st, .error e) => (st, .error e)
        | (st, .error e) => (st, .error e)
      | .un op a =>
        match evalExpr fuel loc st a with
        | (st, .ok va) =>
          (st, .ok (if op == "neg" then sem.alu "sub" [sem.ofNat 0, va] else if op == "not" then sem.alu "seqz" [va] else sem.alu op [va]))
        | (st, .error e) => (st, .error e)
      | .ifexp c a b =>
        -- Python: only the chosen branch is evaluated
        match evalExpr fuel loc st c with
        | (st, .ok vc) => if truthy sem vc then evalExpr fuel loc st a else evalExpr fuel loc st b
        | (st, .error e) => (st, .error e)
      | .read q args =>
        match evalArgs fuel loc st args with
        | (st, .ok vs) => (st, .ok (env st.trace q vs))
        | (st, .error e) => (st, .error e)
      | .sget a =>
        match evalExpr fuel loc st a with
        | (st, .ok va) => match sem.toAddr va with
          | some n => if n < stackSize then (st, .ok (st.mem n)) else (st, .error (.fault "stack-address"))
          | none => (st, .error (.fault "stack-address"))
        | (st, .error e) => (st, .error e)
      | .prim op args =>
        match evalArgs fuel loc st args with
        | (st, .ok vs) => (st, .ok (sem.alu op vs))
        | (st, .error e) => (st, .error e)
      | .index vals i =>
        match evalExpr fuel loc st i with
        | (st, .ok vi) => match sem.toAddr vi with
          | some n => match vals[n]? with
            | some ve => evalExpr fuel loc st ve
            | none => (st, .error (.fault "index-out-of-range"))
          | none => (st, .error (.fault "index-out-of-range"))
        | (st, .error e) => (st, .error e)
      | .call f args =>
        match evalArgs fuel loc st args with
        | (st, .ok vs) =>
          match P.funcs.find? (·.name == f) with
          | none => (st, .error (.fault ("no function " ++ f)))
          | some fn =>
            let loc' : Store V := fn.params.zip vs
            match execBlock fuel loc' st fn.body with
            | (st, .ok (_, .ret (some v))) => (st, .ok v)
            | (st, .ok (_, _)) => (st, .error (.fault "function returned no value"))
            | (st, .error e) => (st, .error e)
        | (st, .error e) => (st, .error e)

def evalArgs (fuel : Nat) (loc : Store V) (st : State V) : List (Expr V) → Res V (List V)
  | [] => (st, .ok [])
  | e :: es =>
    match fuel with
    | 0 => (st, .error .fuel)
    | fuel + 1 =>
      match evalExpr fuel loc st e with
      | (st, .ok v) => match evalArgs fuel loc st es with
        | (st, .ok vs) => (st, .ok (v :: vs))
        | (st, .error e) => (st, .error e)
      | (st, .error e) => (st, .error e)

/-- run a call used as a statement (its value, if any, is dropped) -/
def execCall (fuel : Nat) (loc : Store V) (st : State V) (f : String) (args : List (Expr V)) : Res V Unit :=
  match fuel with
  | 0 => (st, .error .fuel)
  | fuel + 1 =>
    match evalArgs fuel loc st args with
    | (st, .ok vs) =>
      match P.funcs.find? (·.name == f) with
      | none => (st, .error (.fault ("no function " ++ f)))
      | some fn =>
        match execBlock fuel (fn.params.zip vs) st fn.body with
        | (st, .ok _) => (st, .ok ())
        | (st, .error e) => (st, .error e)
    | (st, .error e) => (st, .error e)

def execStmt (fuel : Nat) (loc : Store V) (st : State V) : Stmt V → Res V (Store V × Signal V)
  | s => match fuel with
    | 0 => (st, .error .fuel)
    | fuel + 1 =>
      match s with
      | .gassign n e => match evalExpr fuel loc st e with
        | (st, .ok v) => ({ st with globals := st.globals.set n v }, .ok (loc, .normal))
        | (st, .error e) => (st, .error e)
      | .lassign n e => match evalExpr fuel loc st e with
        | (st, .ok v) => (st, .ok (loc.set n v, .normal))
        | (st, .error e) => (st, .error e)
      | .write q args => match evalArgs fuel loc st args with
        | (st, .ok vs) => ({ st with trace := ⟨q, vs⟩ :: st.trace }, .ok (loc, .normal))
        | (st, .error e) => (st, .error e)
      | .sput a v => match evalExpr fuel loc st a with
        | (st, .ok va) => match evalExpr fuel loc st v with
          | (st, .ok vv) => match sem.toAddr va with
            | some n => if n < stackSize then ({ st with mem := updMem st.mem n vv }, .ok (loc, .normal))
                        else (st, .error (.fault "stack-address"))
            | none => (st, .error (.fault "stack-address"))
          | (st, .error e) => (st, .error e)
        | (st, .error e) => (st, .error e)
      | .ite c t e => match evalExpr fuel loc st c with
        | (st, .ok vc) => if truthy sem vc then execBlock fuel loc st t else execBlock fuel loc st e
        | (st, .error e) => (st, .error e)
      | .while c body => execWhile fuel loc st c body
      | .forRange g x start stop step body =>
        match evalExpr fuel loc st start with
        | (st, .ok v0) => match evalExpr fuel loc st stop with
          | (st, .ok v1) => match evalExpr fuel loc st step with
            | (st, .ok v2) => execFor fuel loc st g x v0 v1 v2 body
            | (st, .error e) => (st, .error e)
          | (st, .error e) => (st, .error e)
        | (st, .error e) => (st, .error e)
      | .forList g x vals body => execForList fuel loc st g x vals body
      | .brk => (st, .ok (loc, .brk))
      | .cont => (st, .ok (loc, .cont))
      | .ret none => (st, .ok (loc, .ret none))
      | .ret (some e) => match evalExpr fuel loc st e with
        | (st, .ok v) => (st, .ok (loc, .ret (some v)))
        | (st, .error e) => (st, .error e)
      | .expr (.call f args) => match execCall fuel loc st f args with
        | (st, .ok _) => (st, .ok (loc, .normal))
        | (st, .error e) => (st, .error e)
      | .expr e => match evalExpr fuel loc st e with
        | (st, .ok _) => (st, .ok (loc, .normal))
        | (st, .error e) => (st, .error e)
      | .yield => ({ st with trace := ⟨"yield", []⟩ :: st.trace }, .ok (loc, .normal))
      | .sleep e => match evalExpr fuel loc st e with
        | (st, .ok v) => ({ st with trace := ⟨"sleep", [v]⟩ :: st.trace }, .ok (loc, .normal))
        | (st, .error e) => (st, .error e)
      | .hcf => ({ st with trace := ⟨"hcf", []⟩ :: st.trace }, .error .halt)
      | .push e => match evalExpr fuel loc st e with
        | (st, .ok v) =>
          if st.sp < stackSize then ({ st with mem := updMem st.mem st.sp v, sp := st.sp + 1 }, .ok (loc, .normal))
          else (st, .error (.fault "stack-overflow"))
        | (st, .error e) => (st, .error e)
      | .pass => (st, .ok (loc, .normal))

def execBlock (fuel : Nat) (loc : Store V) (st : State V) : List (Stmt V) → Res V (Store V × Signal V)
  | [] => (st, .ok (loc, .normal))
  | s :: ss =>
    match fuel with
    | 0 => (st, .error .fuel)
    | fuel + 1 =>
      match execStmt fuel loc st s with
      | (st, .ok (loc, .normal)) => execBlock fuel loc st ss
      | r => r

def execWhile (fuel : Nat) (loc : Store V) (st : State V) (c : Expr V) (body : List (Stmt V)) :
    Res V (Store V × Signal V) :=
  match fuel with
  | 0 => (st, .error .fuel)
  | fuel + 1 =>
    match evalExpr fuel loc st c with
    | (st, .ok vc) =>
      if truthy sem vc then
        match execBlock fuel loc st body with
        | (st, .ok (loc, .normal)) => execWhile fuel loc st c body
        | (st, .ok (loc, .cont)) => execWhile fuel loc st c body
        | (st, .ok (loc, .brk)) => (st, .ok (loc, .normal))
        | r => r
      else (st, .ok (loc, .normal))
    | (st, .error e) => (st, .error e)

/-- `for x in range(v0, v1, v2)`: bounds are evaluated once; `x` is assigned at the start of each iteration -/
def execFor (fuel : Nat) (loc : Store V) (st : State V) (g : Bool) (x : String) (cur stop step : V)
    (body : List (Stmt V)) : Res V (Store V × Signal V) :=
  match fuel with
  | 0 => (st, .error .fuel)
  | fuel + 1 =>
    let more := if sem.cond "ge" [step, sem.ofNat 0] then sem.cond "lt" [cur, stop] else sem.cond "gt" [cur, stop]
    if more then
      let (loc, st) := if g then (loc, { st with globals := st.globals.set x cur }) else (loc.set x cur, st)
      let next := sem.alu "add" [cur, step]
      match execBlock fuel loc st body with
      | (st, .ok (loc, .normal)) => execFor fuel loc st g x next stop step body
      | (st, .ok (loc, .cont)) => execFor fuel loc st g x next stop step body
      | (st, .ok (loc, .brk)) => (st, .ok (loc, .normal))
      | r => r
    else (st, .ok (loc, .normal))

def execForList (fuel : Nat) (loc : Store V) (st : State V) (g : Bool) (x : String) :
    List (Expr V) → List (Stmt V) → Res V (Store V × Signal V)
  | [], _ => (st, .ok (loc, .normal))
  | v :: vs, body =>
    match fuel with
    | 0 => (st, .error .fuel)
    | fuel + 1 =>
      match evalExpr fuel loc st v with
      | (st, .ok cur) =>
        let (loc, st) := if g then (loc, { st with globals := st.globals.set x cur }) else (loc.set x cur, st)
        match execBlock fuel loc st body with
        | (st, .ok (loc, .normal)) => execForList fuel loc st g x vs body
        | (st, .ok (loc, .cont)) => execForList fuel loc st g x vs body
        | (st, .ok (loc, .brk)) => (st, .ok (loc, .normal))
        | r => r
      | (st, .error e) => (st, .error e)
end

/-- run the whole program from the initial state -/
def runProgram (fuel : Nat) (zero : V) : State V × Except Err Unit :=
  let st0 : State V := { globals := [], mem := fun _ => zero, sp := 0, trace := [] }
  match execBlock sem env P fuel [] st0 P.main with
  | (st, .ok _) => (st, .ok ())
  | (st, .error e) => (st, .error e)

end
end PV.Src
