#!/bin/sh
# Build the framework from files on disk only (offline): regenerate the Gen tables from /repo,
# build the Lean library (all property theorems) and the compiled driver.
set -e
cd "$(dirname "$0")"
PYTHONPATH=/repo/src /venv/bin/python tools/extract.py --repo /repo --out lean/PV/Gen
cd lean
lake build PV pvdrv
