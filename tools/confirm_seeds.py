#!/venv/bin/python
"""Confirm seeded changes independently: in a scratch worktree of /repo, for each $SEED_OUT/<id>/<variant>:
  tests pass with the patch; demo fails with the patch; demo passes without it.
Writes $SEED_OUT/confirm.json.  Usage: confirm_seeds.py [ids...]"""
import json, os, subprocess, sys, shutil
from concurrent.futures import ThreadPoolExecutor
from pathlib import Path

SEEDS = Path(os.environ.get("SEED_OUT", "/root/scratch/seed-out"))
VARIANTS = os.environ.get("SEED_VARIANTS", "ABCD")
ENV = dict(os.environ)
ENV.pop("PYTHONDONTWRITEBYTECODE", None)


def sh(cmd, cwd=None, env=None, timeout=1500):
    p = subprocess.run(cmd, shell=True, cwd=cwd, env=env, capture_output=True, text=True, timeout=timeout)
    return p.returncode, (p.stdout + p.stderr)[-3000:]


def work(job):
    k, items = job
    wt = f"/root/scratch/wt-confirm{k}"
    sh(f"git -C /repo worktree remove --force {wt}")
    rc, out = sh(f"git -C /repo worktree add -q --detach {wt} HEAD")
    shutil.copy("/repo/src/stationeers_pytrapic/_version.py", f"{wt}/src/stationeers_pytrapic/_version.py")
    env = dict(ENV, PYTHONPATH=f"{wt}/src", PYTHONPYCACHEPREFIX=f"/root/scratch/pyc-confirm{k}")
    res = {}
    for sid, d in items:
        r = {}
        rc, out = sh(f"git -C {wt} apply {d}/patch.diff")
        r["applies"] = rc == 0
        if rc != 0:
            r["apply_out"] = out
            res[sid] = r
            continue
        rc, out = sh(f"/venv/bin/python -m pytest -q -p no:cacheprovider --timeout=900 -x 2>&1 | tail -5", cwd=wt, env=env)
        r["tests_tail"] = out[-400:]
        r["tests_pass"] = " passed" in out and "failed" not in out
        if not r["tests_pass"]:
            # one retry (the constexpr tests have a 1 s child timeout and are load sensitive)
            rc, out = sh(f"/venv/bin/python -m pytest -q -p no:cacheprovider --timeout=900 2>&1 | tail -8", cwd=wt, env=env)
            r["tests_tail2"] = out[-600:]
            r["tests_pass"] = " passed" in out and "failed" not in out
            if not r["tests_pass"]:
                # rerun only the failed tests, one at a time, up to 4 times each (load-sensitive constexpr child timeout)
                import re as _re
                rc, full = sh(f"/venv/bin/python -m pytest -q -p no:cacheprovider --timeout=900 2>&1 | grep '^FAILED'", cwd=wt, env=env)
                ids = _re.findall(r"^FAILED (\S+)", full, flags=_re.M)
                ok_all = bool(ids) or "failed" not in full
                for tid in ids:
                    ok = False
                    for _ in range(4):
                        rc, o2 = sh(f"/venv/bin/python -m pytest -q -p no:cacheprovider --timeout=900 '{tid}' 2>&1 | tail -3", cwd=wt, env=env)
                        if " passed" in o2 and "failed" not in o2:
                            ok = True
                            break
                    ok_all = ok_all and ok
                r["tests_retry_ids"] = ids
                r["tests_pass"] = ok_all
        rc, out = sh(f"/venv/bin/python {d}/demo.py", cwd="/tmp", env=env, timeout=900)
        r["demo_with_patch_rc"] = rc
        r["demo_with_patch_tail"] = out[-300:]
        sh(f"git -C {wt} checkout -- .")
        rc, out = sh(f"/venv/bin/python {d}/demo.py", cwd="/tmp", env=env, timeout=900)
        r["demo_without_patch_rc"] = rc
        r["confirmed"] = r["tests_pass"] and r["demo_with_patch_rc"] == 1 and r["demo_without_patch_rc"] == 0
        res[sid] = r
        print(sid, "confirmed" if r["confirmed"] else "NOT CONFIRMED", flush=True)
    sh(f"git -C /repo worktree remove --force {wt}")
    shutil.rmtree(f"/root/scratch/pyc-confirm{k}", ignore_errors=True)
    return res


def main():
    ids = sys.argv[1:] or sorted(p.name for p in SEEDS.iterdir() if p.is_dir() and p.name.startswith("C"))
    items = []
    for i in ids:
        for v in VARIANTS:
            d = SEEDS / i / v
            if (d / "patch.diff").exists() and (d / "demo.py").exists():
                items.append((f"{i}-{v}", str(d)))
    n = 4
    jobs = [(k, items[k::n]) for k in range(n)]
    out = {}
    if (SEEDS / "confirm.json").exists():
        out = json.loads((SEEDS / "confirm.json").read_text())
    with ThreadPoolExecutor(n) as ex:
        for r in ex.map(work, jobs):
            out.update(r)
    (SEEDS / "confirm.json").write_text(json.dumps(out, indent=1))
    print(sum(1 for v in out.values() if v.get("confirmed")), "of", len(out), "confirmed")


if __name__ == "__main__":
    main()
