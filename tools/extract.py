#!/venv/bin/python
"""Translator: regenerates /verif/lean/PV/Gen/*.lean (Lean *data*, no proofs) from the current
working tree of the repository.  Run on every check.  Uses Python `ast` on the source files for
literal tables / lambdas / constants and runtime introspection of the imported package for the
generated tables (enums, structures, intrinsics) — so it sees what the transpiler itself uses.

A lost anchor (the code was restructured so that an item can no longer be located) is recorded
in report.json under "lost_anchors"; the corresponding Gen item is then emitted as an *empty /
sentinel* value so that the dependent theorem fails to build rather than silently passing.
"""
from __future__ import annotations

import argparse
import ast
import hashlib
import json
import os
import struct
import sys
from pathlib import Path

LOST: list[str] = []
INFO: dict = {}


def lean_str(s: str) -> str:
    out = ['"']
    for ch in s:
        o = ord(ch)
        if ch == '"':
            out.append('\\"')
        elif ch == "\\":
            out.append("\\\\")
        elif ch == "\n":
            out.append("\\n")
        elif ch == "\t":
            out.append("\\t")
        elif ch == "\r":
            out.append("\\r")
        elif o < 32 or o == 127 or o > 126:
            out.append("\\u{%x}" % o)
        else:
            out.append(ch)
    out.append('"')
    return "".join(out)


def lean_int(n: int) -> str:
    return f"({n})" if n < 0 else str(n)


def lean_list(items: list[str], per_line: int = 6, indent: str = "  ") -> str:
    if not items:
        return "[]"
    lines = []
    for i in range(0, len(items), per_line):
        lines.append(indent + ", ".join(items[i:i + per_line]))
    return "[\n" + ",\n".join(lines) + "]"


def lean_bytes(bs: bytes) -> str:
    return "[" + ", ".join(str(b) for b in bs) + "]"


def f64_bits(x: float) -> int:
    return struct.unpack("<Q", struct.pack("<d", float(x)))[0]


# ---------------------------------------------------------------------------------------------
# AST helpers
# ---------------------------------------------------------------------------------------------

def parse_file(repo: Path, rel: str) -> ast.Module | None:
    p = repo / rel
    try:
        return ast.parse(p.read_text(encoding="utf-8"))
    except Exception as e:
        LOST.append(f"{rel}: cannot parse ({e})")
        return None


def find_func(mod: ast.AST, name: str) -> ast.FunctionDef | None:
    for n in ast.walk(mod):
        if isinstance(n, (ast.FunctionDef, ast.AsyncFunctionDef)) and n.name == name:
            return n
    return None


def find_class(mod: ast.AST, name: str) -> ast.ClassDef | None:
    for n in ast.walk(mod):
        if isinstance(n, ast.ClassDef) and n.name == name:
            return n
    return None


def first_dict_in(node: ast.AST) -> ast.Dict | None:
    for n in ast.walk(node):
        if isinstance(n, ast.Dict):
            return n
    return None


def module_assign(mod: ast.Module, name: str) -> ast.AST | None:
    for n in mod.body:
        if isinstance(n, ast.Assign) and len(n.targets) == 1 and isinstance(n.targets[0], ast.Name) and n.targets[0].id == name:
            return n.value
        if isinstance(n, ast.AnnAssign) and isinstance(n.target, ast.Name) and n.target.id == name:
            return n.value
    return None


# ---------------------------------------------------------------------------------------------
# PyExpr: the lambda bodies of the operator tables as a small expression AST
# ---------------------------------------------------------------------------------------------

_BINOPS = {ast.Add: "add", ast.Sub: "sub", ast.Mult: "mul", ast.Div: "div", ast.Mod: "mod", ast.Pow: "pow",
           ast.BitXor: "bxor", ast.BitAnd: "band", ast.BitOr: "bor", ast.RShift: "shr", ast.LShift: "shl",
           ast.FloorDiv: "floordiv"}
_CMPOPS = {ast.Eq: "eq", ast.NotEq: "ne", ast.Lt: "lt", ast.Gt: "gt", ast.LtE: "le", ast.GtE: "ge"}
_UNOPS = {ast.USub: "neg", ast.Invert: "invert", ast.Not: "not", ast.UAdd: "pos"}


def pyexpr(node: ast.AST, params: list[str]) -> str:
    """Lean term of type PV.PyExpr"""
    if isinstance(node, ast.Name):
        if node.id in params:
            return f"(.param {params.index(node.id)})"
        raise ValueError(f"free name {node.id}")
    if isinstance(node, ast.Constant) and isinstance(node.value, (int, float)) and not isinstance(node.value, bool):
        return f"(.constBits {f64_bits(node.value)})"
    if isinstance(node, ast.Call) and isinstance(node.func, ast.Name) and len(node.args) == 1 and not node.keywords:
        if node.func.id == "_e":
            return f"(.e {pyexpr(node.args[0], params)})"
        if node.func.id == "int":
            return f"(.int {pyexpr(node.args[0], params)})"
        if node.func.id == "float":
            return f"(.float {pyexpr(node.args[0], params)})"
        if node.func.id == "bool":
            return f"(.bool {pyexpr(node.args[0], params)})"
        raise ValueError(f"call {node.func.id}")
    if isinstance(node, ast.BinOp) and type(node.op) in _BINOPS:
        return f"(.bin \"{_BINOPS[type(node.op)]}\" {pyexpr(node.left, params)} {pyexpr(node.right, params)})"
    if isinstance(node, ast.BoolOp) and len(node.values) == 2:
        op = "and" if isinstance(node.op, ast.And) else "or"
        return f"(.boolop \"{op}\" {pyexpr(node.values[0], params)} {pyexpr(node.values[1], params)})"
    if isinstance(node, ast.Compare) and len(node.ops) == 1 and type(node.ops[0]) in _CMPOPS:
        return f"(.cmp \"{_CMPOPS[type(node.ops[0])]}\" {pyexpr(node.left, params)} {pyexpr(node.comparators[0], params)})"
    if isinstance(node, ast.UnaryOp) and type(node.op) in _UNOPS:
        return f"(.un \"{_UNOPS[type(node.op)]}\" {pyexpr(node.operand, params)})"
    raise ValueError(f"unsupported lambda body node {ast.dump(node)[:80]}")


def str_dict_of(func: ast.FunctionDef | None, what: str) -> list[tuple[str, str]]:
    if func is None:
        LOST.append(what)
        return []
    d = first_dict_in(func)
    if d is None:
        LOST.append(what + " (no dict literal)")
        return []
    rows = []
    for k, v in zip(d.keys, d.values):
        if isinstance(k, ast.Constant) and isinstance(v, ast.Constant) and isinstance(k.value, str) and isinstance(v.value, str):
            rows.append((k.value, v.value))
        else:
            LOST.append(what + " (non-literal row)")
    return rows


def gen_tables(repo: Path) -> str:
    utils = parse_file(repo, "src/stationeers_pytrapic/utils.py")
    gen = parse_file(repo, "src/stationeers_pytrapic/generate_code.py")
    out = ["import PV.Base.PyExpr", "/-! GENERATED by tools/extract.py from utils.py / generate_code.py — do not edit. -/",
           "namespace PV.Gen", ""]
    cmp_rows = str_dict_of(find_func(utils, "get_comparison_suffix") if utils else None, "utils.get_comparison_suffix")
    neg_rows = str_dict_of(find_func(utils, "get_negated_comparison_suffix") if utils else None, "utils.get_negated_comparison_suffix")
    out.append("def cmpSuffix : List (String × String) := " + lean_list([f"({lean_str(a)}, {lean_str(b)})" for a, b in cmp_rows]))
    out.append("def negCmpSuffix : List (String × String) := " + lean_list([f"({lean_str(a)}, {lean_str(b)})" for a, b in neg_rows]))

    # branch variants
    bv = module_assign(utils, "_branch_variant") if utils else None
    rows = []
    if isinstance(bv, ast.Dict):
        for k, v in zip(bv.keys, bv.values):
            if isinstance(k, ast.Constant) and isinstance(v, ast.Constant):
                rows.append((k.value, v.value))
    else:
        LOST.append("utils._branch_variant")
    out.append("def branchVariant : List (String × String) := " + lean_list([f"({lean_str(a)}, {lean_str(b)})" for a, b in rows]))

    # math functions
    mf = module_assign(utils, "_math_functions") if utils else None
    names = []
    if isinstance(mf, (ast.Set, ast.List, ast.Tuple)):
        names = sorted(e.value for e in mf.elts if isinstance(e, ast.Constant))
    else:
        LOST.append("utils._math_functions")
    out.append("def mathFunctions : List String := " + lean_list([lean_str(n) for n in names]))

    # relative instruction set
    rel = module_assign(gen, "_HAS_RELATIVE_INSTRUCTION") if gen else None
    names = []
    ok = False
    if isinstance(rel, ast.Call) and rel.args and isinstance(rel.args[0], (ast.List, ast.Set, ast.Tuple)):
        names = sorted(e.value for e in rel.args[0].elts if isinstance(e, ast.Constant))
        ok = True
    elif isinstance(rel, (ast.Set, ast.List, ast.Tuple)):
        names = sorted(e.value for e in rel.elts if isinstance(e, ast.Constant))
        ok = True
    if not ok:
        LOST.append("generate_code._HAS_RELATIVE_INSTRUCTION")
    out.append("def hasRelative : List String := " + lean_list([lean_str(n) for n in names]))

    rva = module_assign(gen, "_RETURN_VALUE_ADDRESS") if gen else None
    if isinstance(rva, ast.Constant) and isinstance(rva.value, int):
        out.append(f"def returnValueAddress : Nat := {rva.value}")
    else:
        LOST.append("generate_code._RETURN_VALUE_ADDRESS")
        out.append("def returnValueAddress : Nat := 0")

    # operator tables
    def op_table(fname: str, nparams: int) -> list[str]:
        f = find_func(utils, fname) if utils else None
        if f is None:
            LOST.append("utils." + fname)
            return []
        d = first_dict_in(f)
        if d is None:
            LOST.append(f"utils.{fname} (no dict)")
            return []
        rows = []
        for k, v in zip(d.keys, d.values):
            try:
                assert isinstance(k, ast.Constant) and isinstance(k.value, str)
                assert isinstance(v, ast.Tuple) and len(v.elts) == 2
                opc, lam = v.elts
                if isinstance(opc, ast.Constant):
                    opcode = opc.value
                elif isinstance(opc, ast.Call) and isinstance(opc.func, ast.Name) and opc.func.id == "comp":
                    # comp = lambda op: "s" + get_comparison_suffix(op)
                    arg = opc.args[0].value
                    suffix = dict(cmp_rows).get(arg)
                    if suffix is None:
                        raise ValueError("comp() of unknown operator")
                    opcode = "s" + suffix
                else:
                    raise ValueError("opcode not literal")
                assert isinstance(lam, ast.Lambda)
                params = [a.arg for a in lam.args.args]
                assert len(params) == nparams
                rows.append(f"({lean_str(k.value)}, {lean_str(opcode)}, {pyexpr(lam.body, params)})")
            except Exception as e:  # noqa
                LOST.append(f"utils.{fname} row {ast.dump(k)[:40]}: {e}")
        return rows

    out.append("def binopTable : List (String × String × PyExpr) := " + lean_list(op_table("get_binop_instruction", 2), per_line=1))
    out.append("def unopTable : List (String × String × PyExpr) := " + lean_list(op_table("get_unop_instruction", 1), per_line=1))
    out.append("")
    out.append("end PV.Gen")
    return "\n".join(out) + "\n"


# ---------------------------------------------------------------------------------------------
# options, numeric constants
# ---------------------------------------------------------------------------------------------

def gen_options(repo: Path) -> str:
    import dataclasses
    from stationeers_pytrapic.compile_pass import CompileOptions
    fields = [(f.name, bool(f.default)) for f in dataclasses.fields(CompileOptions)]
    INFO["option_fields"] = fields
    out = ["/-! GENERATED by tools/extract.py from compile_pass.CompileOptions — do not edit. -/", "namespace PV.Gen", ""]
    out.append("def optionFields : List (String × Bool) := " + lean_list(
        [f"({lean_str(n)}, {'true' if d else 'false'})" for n, d in fields], per_line=2))
    # names for which hasattr(CompileOptions(), name) is true although they are not fields
    o = CompileOptions()
    others = sorted(n for n in dir(o) if n not in {f[0] for f in fields})
    out.append("def optionOtherAttrs : List String := " + lean_list([lean_str(n) for n in others], per_line=4))
    out.append("")
    out.append("end PV.Gen")
    return "\n".join(out) + "\n"


# ---------------------------------------------------------------------------------------------
# enums / structures / intrinsics / instruction set
# ---------------------------------------------------------------------------------------------

def gen_enums(repo: Path) -> str:
    import enum
    from stationeers_pytrapic import types_generated as tg
    out = ["/-! GENERATED by tools/extract.py from types_generated (runtime introspection) — do not edit. -/",
           "namespace PV.Gen", ""]
    names = []
    for name, obj in vars(tg).items():
        if isinstance(obj, type) and issubclass(obj, enum.IntEnum) and obj is not enum.IntEnum and not name.startswith("_"):
            # __members__ includes aliases (two names, one number) — exactly what must not exist
            rows = [(k, int(v.value)) for k, v in obj.__members__.items()]
            names.append((name, rows))
    INFO["enums"] = {n: len(r) for n, r in names}
    for n, rows in names:
        out.append(f"def enum_{n} : List (String × Int) := " + lean_list(
            [f"({lean_str(k)}, {lean_int(v)})" for k, v in rows], per_line=4))
    out.append("def enums : List (String × List (String × Int)) := " + lean_list(
        [f"({lean_str(n)}, enum_{n})" for n, _ in names], per_line=3))
    # which enums print bare member names in verbose mode (format_enum)
    out.append("")
    out.append("end PV.Gen")
    return "\n".join(out) + "\n"


def gen_structures(repo: Path) -> list[tuple[str, str]]:
    """rows: (singular class name, plural singleton name, prefab bytes, hash singular, hash plural,
    hash of plural instance, named slots [(name, index)] singular, same for plural)"""
    from stationeers_pytrapic import structures_generated as sg
    from stationeers_pytrapic import types as T
    rows = []
    problems = []
    singular = {}
    for name, obj in vars(sg).items():
        if isinstance(obj, type) and issubclass(obj, T._BaseStructure) and obj is not T._BaseStructure and not name.startswith("_"):
            if "_prefab_name" in vars(obj):
                singular[name] = obj
    plural_inst = {}
    for name, obj in vars(sg).items():
        if isinstance(obj, T._BaseStructures) and not name.startswith("_"):
            plural_inst[name] = obj

    def slots_of(cls, inst):
        res = []
        for attr in dir(cls):
            if attr.startswith("_"):
                continue
            p = getattr(cls, attr, None)
            if isinstance(p, property):
                try:
                    v = p.fget(inst)
                except Exception:
                    continue
                if isinstance(v, (T._BaseSlotType, T._BaseSlotTypes)):
                    is_num = attr.startswith("slot") and attr[4:].isdigit()
                    res.append((attr, int(v._slot_index), is_num))
        return res

    by_prefab_plural = {}
    for pname, inst in plural_inst.items():
        by_prefab_plural.setdefault(type(inst)._prefab_name, []).append((pname, inst))
    for sname, cls in sorted(singular.items()):
        prefab = cls._prefab_name
        pl = by_prefab_plural.get(prefab, [])
        # the plural form of class X is the singleton named X+'s' of class _X+'s'
        cand = [(pn, pi) for pn, pi in pl if type(pi).__name__ == "_" + pn]
        pn, pi = (None, None)
        for a, b in cand:
            if a == sname + "s":
                pn, pi = a, b
        if pn is None and cand:
            pn, pi = cand[0]
        try:
            sinst = cls("d0")
        except Exception as e:
            problems.append(f"{sname}: cannot instantiate ({e})")
            continue
        sslots = slots_of(cls, sinst)
        pslots = slots_of(type(pi), pi) if pi is not None else []
        rows.append({
            "s": sname, "p": pn or "", "prefab": prefab if isinstance(prefab, str) else "",
            "hs": int(cls._hash), "hp": int(type(pi)._hash) if pi is not None else 0,
            "pprefab": (type(pi)._prefab_name if pi is not None and isinstance(type(pi)._prefab_name, str) else ""),
            "sslots": sslots, "pslots": pslots,
        })
    INFO["structures"] = len(rows)
    INFO["structure_problems"] = problems
    files = []
    NCH = 8   # fixed number of chunks: PV/Props/C16.lean has one group of theorems per chunk
    CH = max(1, -(-len(rows) // NCH))
    chunks = [rows[i:i + CH] for i in range(0, len(rows), CH)]
    while len(chunks) < NCH:
        chunks.append([])
    idx = ["/-! GENERATED by tools/extract.py from structures_generated (runtime introspection) — do not edit. -/",
           "namespace PV.Gen", "",
           "structure StructRow where",
           "  singular : String", "  plural : String", "  prefab : List UInt8", "  pluralPrefab : List UInt8",
           "  hashS : Int", "  hashP : Int",
           "  /-- (property name, slot index, is the numbered form slotN) -/",
           "  slotsS : List (String × Nat × Bool)", "  slotsP : List (String × Nat × Bool)", ""]
    for ci, ch in enumerate(chunks):
        items = []
        for r in ch:
            sl = lambda L: "[" + ", ".join(f"({lean_str(a)}, {b}, {'true' if c else 'false'})" for a, b, c in L) + "]"
            items.append("{ singular := %s, plural := %s, prefab := %s, pluralPrefab := %s, hashS := %s, hashP := %s,\n      slotsS := %s,\n      slotsP := %s }" % (
                lean_str(r["s"]), lean_str(r["p"]), lean_bytes(r["prefab"].encode()), lean_bytes(r["pprefab"].encode()),
                lean_int(r["hs"]), lean_int(r["hp"]), sl(r["sslots"]), sl(r["pslots"])))
        idx.append(f"def structChunk{ci} : List StructRow := " + lean_list(items, per_line=1))
    idx.append("def structChunks : List (List StructRow) := [" + ", ".join(f"structChunk{i}" for i in range(len(chunks))) + "]")
    idx.append(f"def structCount : Nat := {len(rows)}")
    idx.append("")
    idx.append("end PV.Gen")
    files.append(("Structures.lean", "\n".join(idx) + "\n"))
    INFO["struct_chunks"] = len(chunks)
    return files


def gen_intrinsics(repo: Path) -> str:
    """Each wrapper of intrinsics.py is *called* with marker arguments and the produced instruction
    is recorded: (python name, emitted op, positions of the markers among the operands, has output)."""
    import inspect
    from stationeers_pytrapic import intrinsics as I
    from stationeers_pytrapic.types import IC10Instruction
    rows = []
    src_names = []
    mod = parse_file(repo, "src/stationeers_pytrapic/intrinsics.py")
    if mod is not None:
        src_names = [n.name for n in mod.body if isinstance(n, ast.FunctionDef)]
    for name in src_names:
        f = getattr(I, name, None)
        if f is None or not callable(f):
            LOST.append(f"intrinsics.{name} not callable")
            continue
        sig = inspect.signature(f)
        n = len(sig.parameters)
        markers = [f"__m{i}__" for i in range(n)]
        try:
            ins = f(*markers)
        except Exception as e:
            rows.append((name, "", [], False, n, False, f"raises {type(e).__name__}"))
            continue
        if not isinstance(ins, IC10Instruction):
            rows.append((name, "", [], False, n, False, "not an instruction"))
            continue
        vals = [str(x.value) for x in ins.inputs]
        pos = [vals.index(m) if m in vals else 999 for m in markers]
        ret_ann = sig.return_annotation
        declared_result = not (ret_ann is None or ret_ann is inspect.Signature.empty or ret_ann == "None")
        rows.append((name, ins.op, pos, ins.output is not None, len(vals), declared_result, ""))
    INFO["intrinsics"] = len(rows)
    out = ["/-! GENERATED by tools/extract.py by calling every wrapper of intrinsics.py with marker arguments — do not edit. -/",
           "namespace PV.Gen", "",
           "structure IntrinsicRow where", "  pyName : String", "  op : String",
           "  /-- position of the i-th Python argument among the emitted operands -/", "  argPos : List Nat",
           "  hasOutput : Bool", "  numOperands : Nat", "  declaresResult : Bool", "  problem : String", ""]
    out.append("def intrinsics : List IntrinsicRow := " + lean_list(
        ["{ pyName := %s, op := %s, argPos := [%s], hasOutput := %s, numOperands := %d, declaresResult := %s, problem := %s }" % (
            lean_str(a), lean_str(b), ", ".join(map(str, c)), "true" if d else "false", e, "true" if f_ else "false", lean_str(g))
         for a, b, c, d, e, f_, g in rows], per_line=1))
    out.append("")
    # the repository's own instruction list
    p = repo / "webapp" / "src" / "ic10.json"
    instrs = []
    try:
        data = json.loads(p.read_text())
        # find the list of instruction names
        def collect(o):
            if isinstance(o, dict):
                for k, v in o.items():
                    collect(v)
            elif isinstance(o, list):
                for v in o:
                    collect(v)
        if isinstance(data, dict) and "instructions" in data:
            src = data["instructions"]
        else:
            src = data
        if isinstance(src, dict):
            for k, v in src.items():
                instrs.append((k, v))
        elif isinstance(src, list):
            for v in src:
                if isinstance(v, dict) and "name" in v:
                    instrs.append((v["name"], v))
                elif isinstance(v, str):
                    instrs.append((v, None))
    except Exception as e:
        LOST.append(f"webapp/src/ic10.json: {e}")
    INFO["ic10_json_instructions"] = len(instrs)
    out.append("def ic10Instructions : List String := " + lean_list([lean_str(k) for k, _ in instrs], per_line=8))
    out.append("")
    out.append("end PV.Gen")
    return "\n".join(out) + "\n"


def write_if_changed(path: Path, content: str) -> bool:
    if path.exists() and path.read_text() == content:
        return False
    path.write_text(content)
    return True


def main():
    ap = argparse.ArgumentParser()
    ap.add_argument("--repo", default="/repo")
    ap.add_argument("--out", default=str(Path(__file__).resolve().parent.parent / "lean" / "PV" / "Gen"))
    a = ap.parse_args()
    repo = Path(a.repo)
    out = Path(a.out)
    out.mkdir(parents=True, exist_ok=True)
    sys.path.insert(0, str(repo / "src"))
    changed = []
    files: list[tuple[str, str]] = []
    for name, fn in [("Tables.lean", gen_tables), ("Options.lean", gen_options), ("Enums.lean", gen_enums),
                     ("Intrinsics.lean", gen_intrinsics)]:
        try:
            files.append((name, fn(repo)))
        except Exception as e:
            LOST.append(f"{name}: extractor failed: {type(e).__name__}: {e}")
    try:
        files.extend(gen_structures(repo))
    except Exception as e:
        LOST.append(f"Structures.lean: extractor failed: {type(e).__name__}: {e}")
    for name, content in files:
        if write_if_changed(out / name, content):
            changed.append(name)
    digest = {name: hashlib.sha256(content.encode()).hexdigest()[:16] for name, content in files}
    rep = {"lost_anchors": LOST, "changed": changed, "digests": digest, "info": INFO}
    (out / "report.json").write_text(json.dumps(rep, indent=1))
    print(json.dumps({"lost_anchors": LOST, "changed": changed}))


if __name__ == "__main__":
    main()
