#!/usr/bin/env python3
"""Writes /verif/MANIFEST.json from the registry below (kept as code so that it stays consistent)."""
import json
from pathlib import Path

VERIF = Path(__file__).resolve().parent.parent

CHECKS = {}  # filled by register()
NOT_APPLICABLE = {}


def register(pid, category, text, note, technique, design_ref):
    CHECKS[pid] = dict(category=category, text=text, note=note, technique=technique, design_ref=design_ref)


TB = ("Lean 4.33 kernel; axioms propext/Classical.choice/Quot.sound only (audited each run); translator tools/extract.py; "
      "correspondence harness + CPython as environment; ")

register("C18", "proof",
         "Lean theorems b64_roundtrip / urlsafe / share_roundtrip hold for every byte string (induction over 3-byte groups against a model of CPython's lenient base64 decoder); "
         "the model is tied to types.encode_data/decode_data by a correspondence run on generated JSON objects and malformed strings on every check, and the property itself is "
         "evaluated on the real functions as the failing-input oracle.",
         TB + "zlib and JSON inverses are hypotheses; domain = JSON values.",
         "Lean 4 proof (induction) + model/code correspondence", "DESIGN.md §4 C18")

register("C14", "proof",
         "Lean theorems over a model of mod_daemon.py's read loop and try/except/finally (one_line_per_request, output_count, faults_do_not_stop, stops_on_exit, fault_answers, respond_total) hold for "
         "every finite sequence of input lines and every (total) request handler; the model is tied to the real daemon process by a correspondence run: scripted stdin histories over the "
         "property's fault alphabet, the real stdout must consist of exactly the answers the model names, in order, each base64(JSON), compile answers equal to an in-process compile_code.",
         TB + "the handler (decode, compile_code, encode) is a total uninterpreted function in the model; CPython's stdin line iteration and print are the environment.",
         "Lean 4 proof (induction over request histories) + model/daemon-process correspondence", "DESIGN.md §4 C14")

register("C15", "proof",
         "Lean theorems about a replica of the directive scanner in compile_code (scan_frame, scan_last_wins, scan_known_only, tag_spellings, dash_underscore_alike, scan_code_line_inert, "
         "scan_idempotent, scan_eq_api) hold for every source text and every caller option vector; the replica is tied to the code by regeneration of the option fields and by a correspondence run "
         "on structured and wild texts (the options object the real compile_code hands to the compiler), and whole-compile equality directive = API is evaluated on the real code.",
         TB + "PV.PyStr character classes are CPython's (checked against the running interpreter each run).",
         "Lean 4 proof (list induction over lines/tags) + model/code correspondence", "DESIGN.md §4 C15")

register("C16", "proof",
         "The property quantifies over finite tables; they are regenerated from /repo on every run (tools/extract.py: every structure class and plural singleton, every intrinsic wrapper called with marker "
         "arguments, every IntEnum) and decided completely by Lean kernel evaluation (decide +kernel): structures_ok / structures_hash_ok / named_slot_resolves (stored hash = signed CRC-32 of the prefab bytes, "
         "plural reachable with the same prefab and hash, named slots resolve to numbered slots), intrinsic_rows_ok_partial / intrinsic_names_and_order_ok (own opcode, operands in argument order, result iff the "
         "instruction has an output register, opcode in the repository's instruction list), enum_values_injective / enum_member_unique. Nine wrappers that contradict their instruction on the pinned tree are "
         "known findings F-C16-a/b, excluded by name and refuted in PV.Findings.C16. An independent Python pass (zlib, inspect) cross-checks the translator and names the failing row when a theorem breaks.",
         TB + "CRC-32 model PV.Crc32 (bitwise, reflected) and the instruction signature table PV.IC10.Spec are hand-written specifications.",
         "Lean 4 kernel evaluation (decide +kernel) over tables regenerated from the source by a translator", "DESIGN.md §4 C16")

register("C17", "proof",
         "Lean theorems splitlines_join / num_lines_ok / num_bytes_crlf / empty_program: for every list of break-free lines (last one non-empty) the transpiler's formulas give the number of lines and the length "
         "with two-byte line ends; the Stats model is tied to get_code by correspondence on the real results of all shipped programs and generated programs under random option vectors, and the register count is "
         "compared with the allocator's real virtual-to-physical map captured by a harness-side wrapper (no register of the code or of the map may be missing from num_registers).",
         TB + "sizes are counted in characters (ASCII programs); lines contain no exotic str.splitlines separators (hypothesis NoBreaks).",
         "Lean 4 proof (list induction) + model/code correspondence on real compiler results", "DESIGN.md §4 C17")

register("C08", "proof",
         "Lean theorems over PV.Tokens (the transpiler's compute_hash / compute_string / _apply_output_mode / format_enum / format_int and the loader's token semantics denote): for every string, every integer and "
         "every enum member the spelling produced in any output mode denotes the same number (hash_compact_denotes_verbose, str_compact_denotes_verbose under the byte-character hypothesis, "
         "enum_*_compact_denotes_verbose, int_denotes via formatInt_roundtrip), and a number replaces a symbolic token only if it is its value (numeric_only_if_exact). Tie: exact-text correspondence of the model "
         "with the real functions on generated names and on all members of all enums (exhaustive), enum tables regenerated. Oracle: the loader model parses the real verbose and compact outputs of shipped, "
         "generated and string-heavy programs (other options equal, random) and compares the instruction sequences operand by operand. STR with characters above U+00FF is known finding F-C08-a.",
         TB + "IC10 token semantics (HASH = signed CRC-32 of UTF-8 bytes, STR = big-endian byte packing, bare enum names resolved by operand position) is a hand-written specification; names contain no double quote.",
         "Lean 4 proof (case analysis + numeral round-trip induction) + model/code correspondence + loader-model comparison of real outputs", "DESIGN.md §4 C08")

register("C09", "proof",
         "Proved in Lean for all inputs: every integer literal the transpiler prints (decimal or $HEX, any set of prefab hashes) reads back as itself (formatInt_roundtrip); the version note changes at most one "
         "line, only by appending, keeps that line within 90 characters and is a trailing comment to the loader (version_note_*). Both models are tied to utils.format_int / get_code by exact-text correspondence. "
         "NOT a theorem: that every compiled program is grammatical — this part is decided per output by the loader model PV.IC10.Parse (hand-written opcode signature table, operand kinds, register/device "
         "spellings, no placeholders) run on every real output of shipped programs, generated programs and a literal grid under random option vectors; float literals are checked by CPython (plain decimal, "
         "16 significant digits). Known findings F-C03-c, F-C09-a/b/c/d, F-C05-a are printed from their witnesses.",
         TB + "the IC10 grammar PV.IC10.Spec / Parse is a hand-written specification; Lean's Float printing is opaque so float formatting is differential only.",
         "Lean 4 proof for numerals and version note + loader-model (grammar) evaluation of real outputs", "DESIGN.md §4 C09")

register("C01", "other",
         "Partial. (1) Proved in Lean over tables regenerated from utils.py on every run: the branch emitted for every comparison operator is taken exactly when the source condition is false, the set instruction "
         "computes the comparison, the two suffix tables negate each other (branch_neg_correct, cmp_set_correct, negated_table_negates). (2) Proved for a core sub-language (ALU operations, device reads/writes, "
         "yield/sleep, own-stack reads/writes, if/else on comparisons and truth tests, while on a comparison, while True, break, continue, return, calls of procedures — nested to any depth, not recursive, return addresses saved on the call stack, parameters and results in the fixed stack cells, and bodies of functions inlined at their only call site): the model code generator comp is correct on the IC10 machine for every program, value semantics, device environment and fuel "
         "(PV.Core.sim — a relational simulation up to ra —, compile_correct_running for whole programs with procedures, compile_correct_done for procedure-free programs; hypothesis Good decided by goodB and discharged for the real suffix tables by good_of_real_tables; compile_correct_*_stripped: also after label removal, "
         "by composition with C05's label-removal theorem through comp_ok). Tie of (2) to the code: for generated core programs the "
         "captured pre-allocation code of the REAL transpiler must equal comp (flatten src) instruction for instruction (stream incore, 97-99 % of that profile inside the core, all of them equal on the clean tree); "
         "flatten (unproved, executable) is compared with the reference semantics per program; on a fragment of the source dialect (function-free programs of numbers, variables, operators, device reads, intrinsics, conditional expressions, "
         "own-stack access, assignments, device writes, if/else on comparisons and truth tests, while, while True, break, continue, yield, sleep) the front end itself is proved: PV.Front (a structurally recursive flattener, equal to flatten per program: `front: same`, 65-70 % of the incore stream) "
         "preserves the reference semantics PV.Src (front_sound for runs that end, front_prefix for runs that go on), and source_to_chip_done / source_to_chip_running (and their _stripped versions) compose this with the model generator's theorem: the chip running the real "
         "pre-allocation code of such a program reaches exactly the effects of the SOURCE under the dialect semantics (hypotheses on the value domain: SemOk, proved for the integers, evaluated on the chip's floats per program). (3) Beyond the core the whole-program statement is explored by an executable oracle — the reference semantics of the "
         "dialect (PV.Src) and the IC10 machine (PV.IC10), hand-written Lean specifications compiled into pvdrv, run each generated source program and the real emitted code against the same pseudo-random device "
         "environments and compare effect traces (prefix rule for endless programs). The reference semantics PV.Src is itself validated against CPython on generated programs (stream refsem: same abstract program printed as plain Python over ENV/EFF, executed by the interpreter on a recorded environment). "
         "Streams: core, functions, call-heavy, incore / incoref / incoren / incorei (the last under the default options with inlining), refsem; behaviour-neutral options randomised; witnesses of known findings F-C01-a/c/f/h-q "
         "printed as KNOWN-FINDING. Level 'other' because for inlined functions, tail calls, the push/pop convention, for-loops over lists and constant lists the deciding method is differential testing against a formal semantics.",
         TB + "PV.Src and PV.IC10 semantics are trusted hand-written specifications (not validated against the game); PV.Flatten is an unproved executable model of the front end (checked per program against PV.Src "
         "and against the real pre-allocation code; proved against PV.Src on the fragment of PV.Front); NaN / non-finite values outside the compared domain; 128-instruction tick budget not modelled.",
         "Lean 4 proofs (branch tables; compile-correctness of the model generator for the core sub-language, tied to the real generator by per-program code identity) + differential execution of real outputs "
         "against a Lean reference semantics", "DESIGN.md §4 C01")

register("C05", "proof",
         "Lean theorems about the declarative label semantics PV.Labels: a label stands for the index of the instruction that follows it (labelIndex_correct), every such index exists (labelIndex_le), label removal "
         "is line for line the instruction list with label operands replaced by those indices and all other tokens untouched (specRemove_eq_map, substTok_label, substTok_other, substInstr_head), unrelated label "
         "lines do not move any target (labelIndex_erase_other) — for all programs. Machine level: label_removal_preserves_traces (stuttering bisimulation strip_sim_fwd / strip_sim_bwd) — a program of direct "
         "control flow and the program with its label lines deleted and jump targets renumbered have the same effect traces for every environment, start state and number of steps; per real output pair the "
         "harness checks that the label-free output is exactly that strip of the labelled one (strip-compare). Programs with calls: label_removal_preserves_traces_typed (strip_sim_typed, exec_rel over all 20 "
         "instruction kinds) — if on a run of the labelled program no line number is ever used as a value (typing tyRun: jal marks ra, push/pop/put/get move the mark, j r needs a marked r), the label-free program "
         "reaches the same effect trace; strip-run evaluates that hypothesis on one run per real pair. Tie to the code: on every run the REAL output with remove_labels=True is compared line for line with specRemove of the REAL "
         "output with labels kept (other options equal, random) for shipped, generated (core/funcs/calls/loop-control) and identifier-adversarial programs; labels defined once; every jump operand resolves in "
         "both outputs (loader model); behaviour under both settings is compared with the reference semantics. Name collisions after mangling are known findings F-C05-a/b/c (witnesses).",
         TB + "specRemove is a hand-written specification; the regex substitution inside remove_labels is covered by output comparison, not by a theorem about the regex engine.",
         "Lean 4 proofs (list induction about the label semantics; stuttering bisimulation for label removal at machine level) + comparison of real output pairs against both", "DESIGN.md §4 C05")

register("C04", "proof",
         "Two layers of Lean theorems. (1) Allocator model PV.RegAlloc (replica of register_assignment.py): colors_proper — symbols whose line intervals overlap get different colours, for every interval list; "
         "scope_registers_ok — every register a scope assigns is one of r0-r15, is blocked by none of its callers and is counted in the reported set; out_of_registers_is_error. The model is tied to the code by "
         "reproducing the REAL virtual-to-physical map of every program of the run from the real intervals, scope order and call relation (captured harness-side). (2) Validator soundness "
         "PV.AllocCheck.checkAlloc_sound: if the per-line check okProg accepts (code before allocation, renaming, liveness certificate) and control transfers stay on covered edges (checkAlloc_sound_static: decided by the executable edge check edgesOk over the static successors, complete for direct control flow by "
         "Cfg.step_pc_mem_succs; jumps through registers must land on declared successors), the renamed program runs in lock step with the original — same line, stack, effect trace, halting — for every environment and any number of steps, i.e. every register read returns the value last assigned to the same variable or "
         "temporary. The validator is run on the real (code, map) of every shipped and generated program; its acceptance establishes the theorem's hypothesis for that artefact. Rejected artefacts (context-"
         "insensitive liveness) and all others are additionally executed side by side (virtual vs allocated code) as the failing-input search. Known findings F-C04-b/c/e printed from witnesses.",
         TB + "PV.IC10 machine is a trusted specification; indirect jumps (j ra, jr) must land on declared successors (dynamic side condition of the theorem, monitored in the side-by-side run); that line "
         "intervals cover liveness is not a theorem (false on the pinned tree) but decided per artefact.",
         "Lean 4 proofs (allocator invariants by induction; validator soundness by simulation) + translation validation of real allocations", "DESIGN.md §4 C04")

register("C07", "proof",
         "Lean theorems on the IC10 machine model: checkFall_sound — if the static region check accepts an emitted program then, for every environment and any number of steps, a step that leaves its region is a "
         "jal/j to a function entry, a jump through a register (return / jump table), the end of the program, or an explicitly allowed edge (built on step_pc_mem_succs: a step lands on a static successor); "
         "end_halts / halted_forever / after_end_nothing_runs — running off the end stops the chip and the trace never grows again. The hypothesis is established per real artefact: the check runs on the "
         "allocated code of every shipped program, a family of terminating scripts with functions called live / only from compile-time-dead branches / in conditional expressions, and generated programs; regions "
         "are the transpiler's own per-function code lists. A rejected artefact is executed on the machine to exhibit the illegal entry and the effects after it. The fall-through from the end of a terminating "
         "main script into the first CALLED function is known finding F-C07-a (stored references encode it) and is the single allowed edge; an entry into a body no call reaches, or any other cross-region edge, "
         "is a violation.",
         TB + "PV.IC10 machine is a trusted specification; regions are captured harness-side from the transpiler's data structures.",
         "Lean 4 proof (one-step control-flow lemma lifted to regions) + static check of real artefacts + machine execution", "DESIGN.md §4 C07")

register("C06", "other",
         "Partial. Proved in Lean: on the IC10 machine model a jal stores the line after the call in ra, `j ra` continues at the line held in ra, hence a return whose ra still holds what the call stored resumes "
         "right after the call (call_return_roundtrip — the reason why preserving ra across inner calls suffices at any nesting depth); the model of add_ra_instructions puts `push ra` directly after the function "
         "label and `pop ra` directly after the end label in the fixed-slot convention and leaves functions without calls / returns unchanged (addRaFixed_shape, addRa_unchanged); the fixed argument / result "
         "slots are pairwise distinct stack cells (slots_distinct, over the regenerated RV). Leaf functions: a body accepted by the static check checkLeaf (no jal, ra never a destination, every line is `j ra` or "
         "has its static successors inside the body) can only be left through `j ra` to the line ra held on entry, so a jal to it comes back to the line after the jal (leaf_returns, call_leaf_returns — no "
         "dynamic hypothesis); check-leaf runs checkLeaf on every function body of every real output and a rejected call-free body is a violation. core_call_returns (instance of PV.Core.sim): in the proved "
         "core language a call — nested calls saving ra on the call stack included — comes back to the line after the jal at the same stack depth; tied to the real generator by C01's function streams. The model addRa (both conventions) is tied to the real add_ra_instructions by exact correspondence on the real function "
         "bodies of every generated program and on synthetic bodies. NOT a theorem: that every emitted program keeps the discipline — decided per execution by the shadow call stack of the machine run (every "
         "executed `j ra` goes to the instruction after the call being served; sp differs from its value at the call by exactly what the convention prescribes) together with the reference semantics "
         "(arguments in order, result delivered), under fixed-slot / push-pop × tail-call, arities 0-3, early returns, loops ending in returns, nesting to depth 4, and a family of suffix-related function names "
         "with inlining. Known findings F-C06-a, F-C02-a/b are avoided by the generator.",
         TB + "PV.IC10 / PV.Src are trusted specifications; call discipline of functions that call others is monitored per execution, not proved (leaf functions: proved via checkLeaf per real body).",
         "Lean 4 proofs (machine call/return lemmas, ra-bracket shape, static leaf-function return theorem with its checker run on real outputs) + model/code correspondence + shadow-call-stack execution of real outputs", "DESIGN.md §4 C06")

register("C02", "other",
         "Partial. Proved in Lean (corollaries of the model theorems of C05/C08/C09/C15): text appended after blanks and '#' is invisible to the loader (all comment options), every symbolic token denotes the same "
         "number in compact and verbose mode, a removed label is replaced by the index of the instruction that follows it, and options given by '# pytrapic:' comments equal options given through the API. "
         "For inline_functions, tail_call_optimization and use_push_pop_functions — different lowerings of the same source — there is no theorem about the real generator: each generated source is compiled by "
         "the real transpiler under several random option vectors (API and pragma route) and every output is run against the Lean reference semantics with the shadow call stack, so all outputs of one source "
         "behave alike; a family with suffix-related function names is compared pairwise across vectors. All 2^8 vectors are used on profiles without functions / with parameterless procedures; profiles with "
         "parameters, results or unsafe tail positions fix the options for which the pinned tree has known findings (F-C01-a, F-C02-a/b/c, F-C04-b/c).",
         TB + "PV.Src / PV.IC10 are trusted specifications; the lowering options are explored by differential execution, not proved.",
         "Lean 4 corollaries for the textual options + differential execution of real outputs under option vectors against a Lean reference semantics", "DESIGN.md §4 C02")

register("C03", "proof",
         "Proved in Lean over the operator tables regenerated from utils.py on every run (each lambda translated to a small expression term): tables_are_spec — the regenerated tables equal the specification "
         "tables (kernel evaluation; a changed lambda or opcode breaks exactly this obligation); fold_binop_agrees_partial — for every exact integer operator (+ - * % ^ & >> << and the six comparisons) and ALL "
         "integer operands in the property's range (positive modulus, non-negative shift count / shifted value) the value Python computes when folding equals the value of the paired IC10 opcode (including "
         "icmod_eq_pymod: C-style remainder made non-negative = Python's floor modulus); fold_bool_ops_01 (and/or on truth values), fold_unop_agrees (-x as sub 0 x, not as seqz). The Python-semantics model "
         "is tied to the real lambdas by correspondence on an integer grid. Division, powers, math functions, HASH, constant lists, named constants, propagation through variables and function arguments are "
         "decided by the property's own experiment on the real transpiler: constant form (folded literal) vs the same expression with operands loaded from the preloaded stack, both outputs run on the machine "
         "model, written values compared to 16 significant digits. Known findings F-C03-b (and/or beyond truth values), F-C03-c (~).",
         TB + "opcode meaning (PV.Fold.icAlu on whole numbers, PV.IC10.FloatSem on binary64) is a trusted specification; transcendental functions use this machine's libm on both sides.",
         "Lean 4 proof over regenerated operator tables (translator) + fold-vs-runtime experiment on real outputs", "DESIGN.md §4 C03")

register("C11", "proof",
         "Lean theorems over the process model PV.Process (cells that survive a call: output mode, constexpr memo, prefab hash set; the passes an uninterpreted deterministic function of source, options, mode, "
         "evaluator and hash set): history_independent — for EVERY sequence of requests served by one process the i-th result equals the result of the i-th request in a fresh process; step_result_fresh and "
         "step_inv (invariant: the memo only holds values a fresh evaluation gives; the hash set, once filled, is the constant); mode_is_set_from_options. The model's completeness — that no other module-level "
         "state carries over — is checked on every run by a global-state census: every module-level object of every loaded stationeers_pytrapic module is fingerprinted around each compile_code call of generated "
         "histories and the set of cells that ever change must be contained in the three modelled ones. Histories (mode-sensitive sources, errors, pragmas, constexpr functions with equal call text and "
         "different bodies, module dicts, repeats) are also compared with fresh interpreter processes under random PYTHONHASHSEED; the options object and the source mapping must come back unmodified. "
         "Hash-seed dependent register numbering with several library modules is known finding F-C11-b.",
         TB + "astroid / CPython internal caches are outside the census (seen only through the fresh-process comparison).",
         "Lean 4 proof (invariant + induction over request histories) + global-state census + history/fresh-process correspondence", "DESIGN.md §4 C11")

register("C12", "other",
         "Partial. Proved in Lean: a constexpr source that contains open / eval / exec as a whole word is rejected by the scan model, for every source and every position of the word "
         "(forbidden_word_rejected, scan_prefix_irrelevant); the evaluation script is a function of the constexpr sources and the call text only (script_position_independent); an integer result printed by "
         "format_int reads back as itself (int_result_roundtrip). The scan model is tied to the real check_constexpr_function by correspondence on generated texts. 'What the function returns under ordinary "
         "Python evaluation' cannot be a Lean theorem (Python is an external parameter): it is decided on the real transpiler by compiling each generated program twice — with the @constexpr call, and with the "
         "call replaced by the literal the same function returns in the harness interpreter and the definition removed — and requiring identical code (value substituted, nothing emitted for the decorated "
         "function), over 12 body templates × arguments × positional/keyword calls × 5 call positions × options; plus a same-call-text / edited-body history and the rejection of aliasing forms "
         "(g = eval; map(eval, …)). Known finding F-C12-a (library-module constexpr called unqualified).",
         TB + "CPython evaluation of the constexpr body is an external parameter; constexpr children that exceed the transpiler's own 1 s timeout on a loaded machine are skipped and counted.",
         "Lean 4 proof for the rejection scan + literal-substitution comparison on the real transpiler", "DESIGN.md §4 C12")

register("C10", "other",
         "Partial. Proved in Lean over models of the outer shell: verdict_total — whatever the passes do (return, CompilerError, syntax error, any other exception) the try/except skeleton yields a dictionary "
         "with exactly one of code / error and an error carries a non-empty description; prelude_total — the directive scan is a total function; no_child_left / runaway_is_error — in every path of a constexpr "
         "evaluation (child finishes with any status, prints garbage, or never finishes) the helper interpreter is reaped, or killed and reaped, before the evaluation returns or raises. That CPython executes "
         "the passes in bounded time cannot be a theorem: it is observed. The harness submits a malformed-input stream to the real compile_code — a hostile list (runaway / failing / printing constexpr, "
         "recursion, unsupported constructs, huge numbers, NUL, BOM, deep nesting), every prefix of shipped programs, token and byte mutations, odd option values, module dicts — and requires for every input: no "
         "exception, return within 10 s, code with statistics consistent with the text or error with description and a position inside the submitted text, and no child process of the harness left afterwards. "
         "F-C10-a (runaway constexpr child left running) was repaired by a fix: commit.",
         TB + "termination and timing of CPython and OS process state are observed, not proved.",
         "Lean 4 proofs over the exception-flow and child-process models + fault enumeration on the real entry point", "DESIGN.md §4 C10")

register("C13", "other",
         "Partial. Proved in Lean over the naming model PV.Modules (scope keys, `__name__` folding, label mangling): scope_keys_disjoint — the symbol-table keys of two different library modules never coincide "
         "whatever the variable and function names are, so equal names never share storage; name_is_not_main_in_library — inside a library `__name__` folds to the module name, so its `__main__` block is dead; "
         "mangle_injective_partial. The model is tied to the code by comparing its keys with the scope keys the real transpiler uses for the symbols of generated split programs. The behavioural statement is "
         "explored on the real transpiler: generated programs split over 1-3 library modules (same variable / function names in every module, aliases, `__main__` blocks, uncalled functions, constants "
         "re-assigned in the `__main__` block) and the single-file program obtained by prefixing library-level names are both compiled under several option vectors and run on the IC10 machine model against "
         "the same environments — equal effect traces; uncalled functions and `__main__` blocks must contribute no instruction.",
         TB + "PV.IC10 machine is a trusted specification; both forms are compiled by the same transpiler (common defects cancel); libraries are generated within the supported shape (one register-held "
         "variable per module, calls from the main top level).",
         "Lean 4 proof for the naming scheme + differential execution of split vs single-file programs", "DESIGN.md §4 C13")

ALL = [f"C{i:02d}" for i in range(1, 19)]


def main():
    props = [json.loads(l) for l in (VERIF / "properties.jsonl").read_text().splitlines() if l.strip()]
    ids = [p["id"] for p in props]
    checks = []
    for pid in ids:
        if pid not in CHECKS:
            continue
        c = CHECKS[pid]
        checks.append({
            "property_id": pid,
            "quick_cmd": f"./check {pid} --tier quick",
            "thorough_cmd": f"./check {pid} --tier thorough",
            "evidence_file": f"evidence/{pid}.json",
            "replay_cmd_template": f"./check {pid} --replay {{path}}",
            "engine": "lean4+harness",
            "level_claimed": {"category": c["category"], "text": c["text"], "design_ref": c["design_ref"]},
            "level_note": c["note"],
            "technique": c["technique"],
        })
    na = [{"property_id": pid, "reason": NOT_APPLICABLE.get(pid, "check not built yet in this stage of the work (see DESIGN.md §8 staging); not claimed")}
          for pid in ids if pid not in CHECKS]
    man = {
        "version": 1,
        "setup_cmd": "./setup.sh",
        "hooks": {
            "guard": "PYTRAPIC_VERIF",
            "enable": "PYTRAPIC_VERIF=1 in the environment of the harness process (set by harness/common.py); the package is imported from /repo/src",
            "baseline_off_cmd": "cd /repo && /venv/bin/python -m pytest -ra -q -p no:cacheprovider --timeout=900 --continue-on-collection-errors",
            "source_commits": [],
            "add_only": True,
        },
        "engines": [
            {"name": "lean4+harness", "path": "lean/ (Lean 4 models, proofs, pvdrv driver) + harness/ (Python correspondence, oracle, search) + tools/extract.py (translator)",
             "serves_properties": [c["property_id"] for c in checks],
             "kind_free_text": "machine-checked proof in Lean 4 over executable models; models tied to /repo by regeneration (tools/extract.py) and by correspondence runs through the compiled driver pvdrv"},
        ],
        "checks": checks,
        "not_applicable": na,
        "notes": "See DESIGN.md. Known findings: known_findings.json. Replays: replays/*.json (written at run time).",
    }
    (VERIF / "MANIFEST.json").write_text(json.dumps(man, indent=1) + "\n")
    print(f"{len(checks)} checks, {len(na)} not claimed")


if __name__ == "__main__":
    main()
