#!/venv/bin/python
"""Regenerate the seed table of DESIGN.md §9 from a sweep log of tools/seedtest.py.
Usage: seedtable.py <sweep.log>     (rewrites the lines between the table header and the first blank line after it)"""
import json, re, sys
from pathlib import Path

V = Path("/verif")


def main():
    log = Path(sys.argv[1]).read_text()
    rows = {}
    for m in re.finditer(r"^seeded-(C\d\d-[A-Z]) check=(C\d\d): (DETECTED|MISSED)[^\n]*?(?:VIOLATION property=\S+ replay=\S+(?: no-failing-input-found)? :: ([^\n]*))?$", log, flags=re.M):
        sid, chk, verdict, what = m.group(1), m.group(2), m.group(3), (m.group(4) or "")
        nfi = "no-failing-input-found" in m.group(0)
        v = verdict + (" (nfi)" if nfi else "")
        if sid in rows and rows[sid][0] != chk:
            # a second check was run on the same seed (seedtest --also): both verdicts are shown
            pc, pv, pw = rows[sid]
            rows[sid] = (f"{pc}, {chk}", f"{pc}: {pv} · {chk}: {v}", what or pw)
        else:
            rows[sid] = (chk, v, what)
    out = ["| seed | change (one line) | caught by | verdict | what the check reported |", "|---|---|---|---|---|"]
    for d in sorted((V / "seeded").iterdir()):
        if not (d / "meta.json").exists():
            continue
        meta = json.loads((d / "meta.json").read_text())
        sid = d.name
        chk, verdict, what = rows.get(sid, (meta.get("property", "?"), "not run", ""))
        summ = meta.get("summary", "").replace("|", "/").replace("\n", " ")
        out.append(f"| {sid} | {summ[:150]}{'…' if len(summ) > 150 else ''} | {chk} | {verdict} | {what.replace('|', '/')[:110]} |")
    design = (V / "DESIGN.md").read_text()
    start = design.index("| seed | change (one line) |")
    end = design.index("\n\n", start)
    (V / "DESIGN.md").write_text(design[:start] + "\n".join(out) + design[end:])
    print(len(out) - 2, "rows;", sum(1 for r in rows.values() if "DETECTED" in r[1]), "detected of", len(rows), "run")


if __name__ == "__main__":
    main()
