#!/venv/bin/python
"""Run the registered quick check of a property against seeded changes.
  seedtest.py <seed-dir>...        (each containing patch.diff and meta.json with "property")
For each: git -C /repo apply patch.diff; ./check <prop> --tier quick [also other props given with --also]; git -C /repo checkout -- .
Prints one line per seed: DETECTED (exit 1 + VIOLATION line) / MISSED (exit 0) / INFRA (exit 2)."""
import json, subprocess, sys, os, time
from pathlib import Path

VERIF = Path(__file__).resolve().parent.parent


def sh(cmd, **kw):
    return subprocess.run(cmd, shell=True, capture_output=True, text=True, **kw)


def main():
    args = sys.argv[1:]
    repo = "/repo"
    if "--repo" in args:       # a scratch worktree instead of /repo (with a scratch copy of /verif: nothing shared with running checks)
        i = args.index("--repo")
        repo = args[i + 1]
        args = args[:i] + args[i + 2:]
    env = dict(os.environ, PYTRAPIC_REPO=repo)
    also = []
    if "--also" in args:
        i = args.index("--also")
        also = args[i + 1].split(",")
        args = args[:i] + args[i + 2:]
    results = {}
    for d in args:
        d = Path(d).resolve()
        meta = json.loads((d / "meta.json").read_text())
        prop = meta["property"]
        st = sh(f"git -C {repo} status --short")
        if st.stdout.strip():
            print(f"refusing: {repo} is not clean:", st.stdout)
            return 2
        ap = sh(f"git -C {repo} apply {d / 'patch.diff'}")
        if ap.returncode != 0:
            print(d, "patch does not apply:", ap.stderr[:300])
            continue
        try:
            for p in [prop] + also:
                t0 = time.time()
                r = sh(f"./check {p} --tier quick", cwd=VERIF, timeout=3600, env=env)
                lines = [l for l in r.stdout.splitlines() if l.startswith("VIOLATION") or l.startswith("KNOWN-FINDING") or l.startswith("[")]
                verdict = {0: "MISSED", 1: "DETECTED", 2: "INFRA"}.get(r.returncode, f"rc={r.returncode}")
                replay = ""
                for l in lines:
                    if l.startswith("VIOLATION"):
                        rp = l.split("replay=")[1].split()[0]
                        try:
                            replay = json.loads((VERIF / rp).read_text()).get("what", "")[:260]
                        except Exception:
                            pass
                print(f"{d.parent.name}-{d.name} check={p}: {verdict} ({time.time() - t0:.0f}s) " + " | ".join(l for l in lines if l.startswith("VIOLATION")) + (" :: " + replay if replay else ""), flush=True)
                if r.returncode == 2:
                    print("   stderr:", r.stderr[-500:])
                results[f"{d.parent.name}-{d.name}/{p}"] = verdict
        finally:
            sh(f"git -C {repo} checkout -- .")
    return 0


if __name__ == "__main__":
    sys.exit(main())
